package main

// C19 - CSV import stores every accepted record faithfully.
//
// Record streams are built BY CLASS, so the expected outcome of every record
// (stored with these values / reported as an error) is known by construction
// and never re-derived from the CSV text.

import (
	"bytes"
	"encoding/json"
	"fmt"
	"os"
	"reflect"
	"strings"
	"testing"
	"time"

	"github.com/mk6i/mkdb/storage"
	"pgregory.net/rapid"
	"verif/vlib"
)

type c19Field struct {
	Text   string `json:"text"`
	Quoted bool   `json:"q,omitempty"`
}

type c19Record struct {
	Class  string     `json:"class"`
	Fields []c19Field `json:"fields"`
	Raw    string     `json:"raw,omitempty"` // malformed records are given as raw line text
	Accept bool       `json:"accept"`
	// expected stored values of the mapped columns (parallel to DstCols): JSON-friendly
	Want []c19Val `json:"want,omitempty"`
}

type c19Val struct {
	Null bool    `json:"null,omitempty"`
	I    *int64  `json:"i,omitempty"`
	S    *string `json:"s,omitempty"`
	B    *bool   `json:"b,omitempty"`
}

func (v c19Val) Go() interface{} {
	switch {
	case v.I != nil:
		return *v.I
	case v.S != nil:
		return *v.S
	case v.B != nil:
		return *v.B
	}
	return nil
}

type c19Case struct {
	ColTypes []int       `json:"col_types"` // destination schema: storage.DataType per column c0..cN
	DstCols  []int       `json:"dst_cols"`  // mapped destination columns (indexes into the schema), injective
	SrcCols  []int       `json:"src_cols"`  // CSV source index per mapped column (repeats allowed)
	Sep      string      `json:"sep"`
	PadLists bool        `json:"pad_lists,omitempty"` // the -dest-cols / -src-cols lists are written with a blank after each comma
	Existing int         `json:"existing"`            // rows present before the import
	Records  []c19Record `json:"records"`
}

func c19Render(c c19Case) string {
	var sb strings.Builder
	for _, r := range c.Records {
		if r.Raw != "" {
			sb.WriteString(r.Raw)
			sb.WriteByte('\n')
			continue
		}
		for i, f := range r.Fields {
			if i > 0 {
				sb.WriteString(c.Sep)
			}
			need := strings.ContainsAny(f.Text, c.Sep+"\"\n") || f.Quoted || (len(r.Fields) == 1 && f.Text == "")
			if need {
				sb.WriteByte('"')
				sb.WriteString(strings.ReplaceAll(f.Text, `"`, `""`))
				sb.WriteByte('"')
			} else {
				sb.WriteString(f.Text)
			}
		}
		sb.WriteByte('\n')
	}
	return sb.String()
}

func c19Int(v int64) c19Val  { return c19Val{I: &v} }
func c19Str(s string) c19Val { return c19Val{S: &s} }
func c19Bool(b bool) c19Val  { return c19Val{B: &b} }

// c19GoodField draws a field text that must convert for the column type,
// with the value it must be stored as.
func c19GoodField(t *rapid.T, dt storage.DataType, sep string) (string, c19Val) {
	switch dt {
	case storage.TypeInt:
		switch rapid.IntRange(0, 5).Draw(t, "intform") {
		case 0:
			return "0100", c19Int(100)
		case 1:
			return "08", c19Int(8)
		case 2:
			return "+7", c19Int(7)
		case 3:
			v := rapid.SampledFrom([]int64{2147483647, -2147483648, 0, -1}).Draw(t, "intb")
			return fmt.Sprint(v), c19Int(v)
		}
		v := rapid.Int64Range(-100000, 100000).Draw(t, "int")
		return fmt.Sprint(v), c19Int(v)
	case storage.TypeBigInt:
		switch rapid.IntRange(0, 5).Draw(t, "bigform") {
		case 0:
			return "0100", c19Int(100)
		case 1:
			return "09", c19Int(9)
		case 2:
			v := rapid.SampledFrom([]int64{9223372036854775807, -9223372036854775808, 2147483648, -2147483649}).Draw(t, "bigb")
			return fmt.Sprint(v), c19Int(v)
		}
		v := rapid.Int64().Draw(t, "big")
		return fmt.Sprint(v), c19Int(v)
	case storage.TypeBoolean:
		sp := rapid.SampledFrom([]string{"1", "true", "t", "TRUE", "T", "True", "0", "false", "f", "FALSE", "F", "fAlSe"}).Draw(t, "bool")
		l := strings.ToLower(sp)
		return sp, c19Bool(l == "1" || l == "true" || l == "t")
	}
	s := rapid.SampledFrom([]string{"", "a", "hello world", "x" + sep + "y", `say "hi"`, "line1\nline2", " padded ", "日本", "N", "\\n", "1", "true", `"`, sep, "a,b;c|d",
		// texts that are markers in other tools' dialects (end of data, comments, NULL spellings): here they are just strings
		`\.`, `\\.`, ".", "#", "# note", "--", "//x", "NULL", "null", `\0`, "EOF", `\N `, ` \N`, `\n`, `\N\N`, "\x1a",
		// bytes that are not UTF-8 (a Latin-1 export, a stray byte): strings are byte strings
		"caf\xe9", "\xff\xfe", "\xc3", "na\xefve \x80", "\xed\xa0\x80"}).Draw(t, "str")
	return s, c19Str(s)
}

// c19BadField draws a field text that must NOT convert for the column type.
func c19BadField(t *rapid.T, dt storage.DataType) (string, bool) {
	switch dt {
	case storage.TypeInt:
		return rapid.SampledFrom([]string{"abc", "", "1.5", "1e3", "0x10", "1_000", "12x", " 5", "2147483648", "-2147483649", "99999999999999999999", "--1", "-", "+", "+-1", "- 1"}).Draw(t, "badint"), true
	case storage.TypeBigInt:
		return rapid.SampledFrom([]string{"abc", "", "1.5", "0x10", "1_000", "0b1", "0o7", "9223372036854775808", "12 ", "true", "-", "+", "-+2"}).Draw(t, "badbig"), true
	case storage.TypeBoolean:
		return rapid.SampledFrom([]string{"yes", "no", "", "2", "tru", "ff", "10", " true", "y", "-1", "Yes", "Yes", "No", "N/A", "N/A", "TRUE1", "Y"}).Draw(t, "badbool"), true
	}
	return "", false
}

func c19Gen(t *rapid.T) c19Case {
	c := c19Case{Sep: rapid.SampledFrom([]string{",", ",", ";", "\t", "|", "§", "¦", "·", "→"}).Draw(t, "sep")}
	c.PadLists = rapid.IntRange(0, 9).Draw(t, "padlists") == 4
	ncols := rapid.IntRange(1, 6).Draw(t, "ncols")
	for i := 0; i < ncols; i++ {
		c.ColTypes = append(c.ColTypes, rapid.IntRange(0, 3).Draw(t, "ctype"))
	}
	perm := rapid.Permutation(seq(ncols)).Draw(t, "dstperm")
	c.DstCols = perm[:rapid.IntRange(1, ncols).Draw(t, "nmapped")]
	nsrc := rapid.IntRange(1, 6).Draw(t, "nsrc")
	maxSrc := 0
	for range c.DstCols {
		s := rapid.IntRange(0, nsrc-1).Draw(t, "src")
		c.SrcCols = append(c.SrcCols, s)
		if s > maxSrc {
			maxSrc = s
		}
	}
	c.Existing = rapid.IntRange(0, 3).Draw(t, "existing")
	switch rapid.IntRange(0, 99).Draw(t, "existing_many") {
	case 7, 8, 9, 10:
		c.Existing = rapid.SampledFrom([]int{8, 9, 17, 40}).Draw(t, "existing_leafs") // the import continues a table of several leaves
	case 50:
		c.Existing = rapid.SampledFrom([]int{1160, 1170}).Draw(t, "existing_deep") // ... a table that gets its third level during the import
	}
	// which mapped columns read each source index
	readers := map[int][]int{}
	for mi, s := range c.SrcCols {
		readers[s] = append(readers[s], mi)
	}
	nrec := rapid.IntRange(1, 25).Draw(t, "nrec")
	badFrom, badTo := -1, -1
	if rapid.IntRange(0, 39).Draw(t, "badrun") == 17 {
		// a long file with a long stretch of bad records in its middle: the records after it count too
		nrec = rapid.IntRange(70, 140).Draw(t, "nrec_long")
		badFrom = rapid.IntRange(0, 10).Draw(t, "badfrom")
		badTo = badFrom + rapid.SampledFrom([]int{49, 50, 51, 60, 100}).Draw(t, "badlen")
	}
	for len(c.Records) < nrec {
		class := rapid.SampledFrom([]string{"valid", "valid", "valid", "valid", "null", "null", "badvalue", "short", "barequote", "afterquote", "extrafields", "oversize"}).Draw(t, "class")
		if i := len(c.Records); i >= badFrom && i < badTo {
			class = rapid.SampledFrom([]string{"barequote", "afterquote"}).Draw(t, "badclass")
		}
		width := maxSrc + 1 + rapid.IntRange(0, 2).Draw(t, "extra")
		rec := c19Record{Class: class, Accept: true, Want: make([]c19Val, len(c.DstCols))}
		fields := make([]c19Field, width)
		// a source field read by several mapped columns must convert for all of them: pick the
		// text for the first reader and verify the others by construction (same type) - else
		// fall back to NULL, which every type accepts
		ok := true
		for s := 0; s < width; s++ {
			rs := readers[s]
			if len(rs) == 0 {
				fields[s] = c19Field{Text: rapid.SampledFrom([]string{"", "junk", "42", "\\N", `\.`, "#", "--"}).Draw(t, "unread")}
				continue
			}
			sameType := true
			for _, mi := range rs {
				if c.ColTypes[c.DstCols[mi]] != c.ColTypes[c.DstCols[rs[0]]] {
					sameType = false
				}
			}
			if !sameType {
				fields[s] = c19Field{Text: "\\N"}
				for _, mi := range rs {
					rec.Want[mi] = c19Val{Null: true}
				}
				continue
			}
			txt, val := c19GoodField(t, storage.DataType(c.ColTypes[c.DstCols[rs[0]]]), c.Sep)
			fields[s] = c19Field{Text: txt, Quoted: rapid.IntRange(0, 4).Draw(t, "quote") == 0}
			for _, mi := range rs {
				rec.Want[mi] = val
			}
		}
		switch class {
		case "null":
			s := c.SrcCols[rapid.IntRange(0, len(c.SrcCols)-1).Draw(t, "nullat")]
			fields[s] = c19Field{Text: "\\N", Quoted: rapid.Bool().Draw(t, "nullquoted")}
			for _, mi := range readers[s] {
				rec.Want[mi] = c19Val{Null: true}
			}
		case "badvalue":
			mi := rapid.IntRange(0, len(c.DstCols)-1).Draw(t, "badat")
			txt, can := c19BadField(t, storage.DataType(c.ColTypes[c.DstCols[mi]]))
			if !can {
				ok = false
				break
			}
			fields[c.SrcCols[mi]] = c19Field{Text: txt}
			rec.Accept = false
		case "short":
			if maxSrc == 0 {
				ok = false
				break
			}
			fields = fields[:rapid.IntRange(1, maxSrc).Draw(t, "shortlen")]
			rec.Accept = false
		case "barequote":
			rec.Raw = "ab\"cd" + strings.Repeat(c.Sep+"1", maxSrc)
			rec.Accept = false
		case "afterquote":
			rec.Raw = "\"ab\"cd" + strings.Repeat(c.Sep+"1", maxSrc)
			rec.Accept = false
		case "extrafields":
			fields = append(fields, c19Field{Text: "extra"}, c19Field{Text: "more"})
		case "oversize":
			var vcols []int
			for mi, d := range c.DstCols {
				if c.ColTypes[d] == int(storage.TypeVarchar) && len(readers[c.SrcCols[mi]]) == 1 {
					vcols = append(vcols, mi)
				}
			}
			if len(vcols) == 0 {
				ok = false
				break
			}
			mi := vcols[0]
			fields[c.SrcCols[mi]] = c19Field{Text: strings.Repeat("z", 401)}
			rec.Accept = false
		}
		if !ok {
			continue
		}
		rec.Fields = fields
		if !rec.Accept {
			rec.Want = nil
		}
		c.Records = append(c.Records, rec)
	}
	return c
}

func seq(n int) []int {
	r := make([]int, n)
	for i := range r {
		r[i] = i
	}
	return r
}

func c19Run(c c19Case, st *vlib.Stats) string {
	storage.VerifNoTimer = true
	os.RemoveAll("data")
	defer os.RemoveAll("data")
	const db, table = "csvdb", "dest"
	if err := storage.CreateDB(db); err != nil {
		return "CreateDB failed: " + err.Error()
	}
	// with or without -disable-wal-fsync: a process exit is not a power failure
	rs, err := storage.OpenRelation(db, len(c.Records)%2 == 0)
	if err != nil {
		return "OpenRelation failed: " + err.Error()
	}
	abandoned := false
	defer func() {
		if !abandoned {
			rs.VerifAbandon()
		}
	}()
	rel := &storage.Relation{}
	var colNames []string
	for i, ct := range c.ColTypes {
		fd := storage.FieldDef{Name: fmt.Sprintf("c%d", i), DataType: storage.DataType(ct)}
		if fd.DataType == storage.TypeVarchar {
			fd.Len = 400
		}
		rel.Fields = append(rel.Fields, fd)
		colNames = append(colNames, fd.Name)
	}
	if err := rs.CreateTable(rel, table); err != nil {
		return "CreateTable failed: " + err.Error()
	}
	// pre-existing rows (all NULL) must stay untouched
	for i := 0; i < c.Existing; i++ {
		w, err := rs.Insert(table, nil, make([]interface{}, len(c.ColTypes)))
		if err != nil {
			return "pre-existing insert failed: " + err.Error()
		}
		rs.FlushWALBatch(w)
	}
	var dst []string
	for _, d := range c.DstCols {
		dst = append(dst, colNames[d])
	}
	types, err := colDataTypes(rs, table, dst)
	if err != nil {
		return "colDataTypes failed: " + err.Error()
	}
	for i, d := range c.DstCols {
		if int(types[i]) != c.ColTypes[d] {
			return fmt.Sprintf("colDataTypes reports type %d for %s, the catalog was created with %d", types[i], dst[i], c.ColTypes[d])
		}
	}
	// the configuration is built the way main() builds it: from the command-line flags
	var srcStrs []string
	for _, sc := range c.SrcCols {
		srcStrs = append(srcStrs, fmt.Sprint(sc))
	}
	listSep := ","
	if c.PadLists {
		listSep = ", "
	}
	*cfgDb, *cfgDestCols, *cfgSrcCols, *cfgSep, *cfgTable = db, strings.Join(dst, listSep), strings.Join(srcStrs, listSep), c.Sep, table
	cfg, err := makeConfig(rs)
	if err != nil && c.PadLists {
		// a list written "a, b": refusing it is the program's choice; what it may not do is
		// accept it and then import something else than the records
		st.Label("padded-flag-list-refused", 1)
		b, _ := json.Marshal(c)
		st.Record(b, false, "padded-flag-lists")
		return ""
	}
	if err != nil {
		return "makeConfig failed: " + err.Error()
	}
	wantCfg := importCfg{colTypes: types, db: db, dstCols: dst, separator: []rune(c.Sep)[0], srcCols: c.SrcCols, table: table}
	if !c.PadLists && !reflect.DeepEqual(cfg, wantCfg) {
		return fmt.Sprintf("makeConfig built %+v from the flags, expected %+v", cfg, wantCfg)
	}
	text := c19Render(c)
	chOk, chErr := doBatchInsert(rs, cfg, bytes.NewBufferString(text))
	var events []bool
	timeout := time.After(30 * time.Second)
	for chOk != nil || chErr != nil {
		select {
		case _, ok := <-chOk:
			if ok {
				events = append(events, true)
			} else {
				chOk = nil
			}
		case _, ok := <-chErr:
			if ok {
				events = append(events, false)
			} else {
				chErr = nil
			}
		case <-timeout:
			return "the import did not finish within 30 s"
		}
	}
	if len(events) != len(c.Records) {
		return fmt.Sprintf("%d events for %d records (each record must be reported exactly once)\n  input: %q", len(events), len(c.Records), text)
	}
	var want [][]interface{}
	for i := 0; i < c.Existing; i++ {
		want = append(want, make([]interface{}, len(c.ColTypes)))
	}
	rejBetween, sawNull := false, false
	for i, r := range c.Records {
		if events[i] != r.Accept {
			return fmt.Sprintf("record %d (class %s) was %s, expected %s\n  record: %q\n  input: %q", i, r.Class,
				map[bool]string{true: "accepted", false: "reported as an error"}[events[i]], map[bool]string{true: "accepted", false: "an error"}[r.Accept], c19Render(c19Case{Sep: c.Sep, Records: []c19Record{r}}), text)
		}
		if r.Accept {
			row := make([]interface{}, len(c.ColTypes))
			for mi, d := range c.DstCols {
				row[d] = r.Want[mi].Go()
				if r.Want[mi].Null {
					sawNull = true
				}
			}
			want = append(want, row)
		} else if i > 0 && i < len(c.Records)-1 {
			accBefore, accAfter := false, false
			for j := 0; j < i; j++ {
				accBefore = accBefore || c.Records[j].Accept
			}
			for j := i + 1; j < len(c.Records); j++ {
				accAfter = accAfter || c.Records[j].Accept
			}
			rejBetween = rejBetween || (accBefore && accAfter)
		}
	}
	compare := func(when string) string {
		rows, _, err := rs.Fetch(table)
		if err != nil {
			return when + "Fetch failed: " + err.Error()
		}
		if len(rows) != len(want) {
			return fmt.Sprintf("%stable holds %d rows, expected %d (pre-existing %d + accepted records)\n  input: %q", when, len(rows), len(want), c.Existing, text)
		}
		for i := range want {
			if !reflect.DeepEqual(rows[i].Vals, want[i]) {
				return fmt.Sprintf("%srow %d is %v, expected %v\n  input: %q", when, i, rows[i].Vals, want[i], text)
			}
		}
		return ""
	}
	if msg := compare(""); msg != "" {
		return msg
	}
	// the import program does not close its store, it just exits; the database is then
	// opened by another program. The accepted records must be there.
	rs.VerifAbandon()
	abandoned = true
	if err := storage.InitStorage(); err != nil {
		return "after the importing program exited the database does not start: " + err.Error()
	}
	rs, err = storage.OpenRelation(db, true)
	if err != nil {
		return "after the importing program exited the database cannot be opened: " + err.Error()
	}
	abandoned = false
	if msg := compare("after the importing program exited and the database was opened again: "); msg != "" {
		return msg
	}
	b, _ := json.Marshal(c)
	var labels []string
	seen := map[string]bool{}
	for _, r := range c.Records {
		if !seen[r.Class] {
			seen[r.Class] = true
			labels = append(labels, "class-"+r.Class)
		}
	}
	for _, d := range c.DstCols {
		labels = append(labels, fmt.Sprintf("dst-type-%d", c.ColTypes[d]))
	}
	st.Record(b, rejBetween && sawNull, labels...)
	return ""
}

func TestVerifC19(t *testing.T) {
	vlib.Drive(t, vlib.Prop[c19Case]{ID: "C19", Gen: c19Gen, Run: c19Run})
}
