package storage

// C15 - the page cache is a correct LRU that never drops unsaved pages.
//
// Operation sequences over set / get / markDirty / markClean are run against
// the real LRUCache and against a list-based reference model written from the
// property's text; after EVERY step return values, resident keys, recency
// order and size are compared.

import (
	"bytes"
	"encoding/json"
	"fmt"
	"testing"

	"pgregory.net/rapid"
	"verif/vlib"
)

type c15Op struct {
	Op    string `json:"op"` // set | get | dirty | clean | fetch (get, and on a miss set clean)
	Key   int    `json:"k"`
	Dirty bool   `json:"d,omitempty"`   // set: the page is already dirty when it is inserted
	Fresh bool   `json:"f,omitempty"`   // set: a new page object even if the key is resident
	N     int    `json:"n,omitempty"`   // set: repeat for N consecutive keys (large capacities)
	LSN   int    `json:"lsn,omitempty"` // set dirty / dirty: offset added to the log sequence number of the transition
}

type c15Case struct {
	Cap int     `json:"cap"`
	Ops []c15Op `json:"ops"`
}

// c15Key: the cache is keyed the way the file store keys it - by page offset.
func c15Key(k int) any { return uint64(k) * pageSize }

type c15Entry struct {
	key  int
	node *btreeNode
}

// c15Model is the reference: entries ordered from most to least recently used.
type c15Model struct {
	cap     int
	entries []c15Entry
	// the model's own view of which page objects are dirty: set by the
	// operations, never read from the page (a dirty transition that does not
	// take effect is exactly what loses an unsaved page)
	dirty map[*btreeNode]bool
}

func (m *c15Model) find(k int) int {
	for i, e := range m.entries {
		if e.key == k {
			return i
		}
	}
	return -1
}

func (m *c15Model) touch(i int) {
	e := m.entries[i]
	copy(m.entries[1:i+1], m.entries[:i])
	m.entries[0] = e
}

func (m *c15Model) set(k int, n *btreeNode) (ok bool, evicted int, skippedDirty bool) {
	evicted = -1
	if i := m.find(k); i >= 0 {
		m.entries[i].node = n
		m.touch(i)
		return true, -1, false
	}
	if len(m.entries) == m.cap {
		victim := -1
		for i := len(m.entries) - 1; i >= 0; i-- {
			if !m.dirty[m.entries[i].node] {
				victim = i
				break
			}
			skippedDirty = true
		}
		if victim < 0 {
			return false, -1, true // full of dirty pages: refused, nothing changes
		}
		evicted = m.entries[victim].key
		m.entries = append(m.entries[:victim], m.entries[victim+1:]...)
	}
	m.entries = append([]c15Entry{{k, n}}, m.entries...)
	return true, evicted, skippedDirty
}

func (m *c15Model) get(k int) (*btreeNode, bool) {
	if i := m.find(k); i >= 0 {
		n := m.entries[i].node
		m.touch(i)
		return n, true
	}
	return nil, false
}

type c15Runner struct {
	lru     *LRUCache
	m       *c15Model
	nodes   map[int]*btreeNode // last page object stored per key
	evSkip  int                // evictions that had to skip a dirty entry
	refused int
	evicts  int
}

func newC15Runner(cap int) *c15Runner {
	return &c15Runner{lru: NewLRU(cap), m: &c15Model{cap: cap, dirty: map[*btreeNode]bool{}}, nodes: map[int]*btreeNode{}}
}

func (r *c15Runner) clone() *c15Runner {
	c := newC15Runner(r.m.cap)
	// rebuild from least to most recent so that the order is the same; page
	// objects are copied so that dirty flags do not leak between branches
	cp := map[*btreeNode]*btreeNode{}
	for i := len(r.m.entries) - 1; i >= 0; i-- {
		e := r.m.entries[i]
		n := &btreeNode{dirty: e.node.dirty, lastLSN: e.node.lastLSN, fileOffset: e.node.fileOffset, isLeaf: e.node.isLeaf}
		cp[e.node] = n
		c.m.dirty[n] = r.m.dirty[e.node]
		c.m.entries = append([]c15Entry{{e.key, n}}, c.m.entries...)
	}
	for e := r.lru.list.Back(); e != nil; e = e.Prev() {
		ce := e.Value.(*cacheEntry)
		n := cp[ce.val]
		if n == nil {
			n = &btreeNode{dirty: ce.val.dirty, lastLSN: ce.val.lastLSN, fileOffset: ce.val.fileOffset, isLeaf: ce.val.isLeaf}
			c.m.dirty[n] = r.m.dirty[ce.val]
		}
		el := c.lru.list.PushFront(&cacheEntry{key: ce.key, val: n})
		c.lru.cache[ce.key] = el
	}
	for k, n := range r.nodes {
		if x := cp[n]; x != nil {
			c.nodes[k] = x
		} else {
			nn := &btreeNode{dirty: n.dirty, lastLSN: n.lastLSN, fileOffset: n.fileOffset, isLeaf: n.isLeaf}
			c.m.dirty[nn] = r.m.dirty[n]
			c.nodes[k] = nn
		}
	}
	c.evSkip, c.refused, c.evicts = r.evSkip, r.refused, r.evicts
	return c
}

// step applies one operation to both and compares. "" = agree.
func (r *c15Runner) step(op c15Op) string {
	if op.Op == "fetch" {
		// what the file store does for a page: look it up, and on a miss read it and store it (clean)
		if msg := r.step(c15Op{Op: "get", Key: op.Key}); msg != "" {
			return msg
		}
		if r.m.find(op.Key) >= 0 {
			return ""
		}
		return r.step(c15Op{Op: "set", Key: op.Key, Fresh: true})
	}
	switch op.Op {
	case "set":
		n := r.nodes[op.Key]
		if n == nil || op.Fresh || r.m.find(op.Key) < 0 {
			// a mix of leaf and internal pages, as in a real cache
			n = &btreeNode{fileOffset: uint64(op.Key) * pageSize, isLeaf: op.Key%2 == 0}
			if op.Dirty {
				n.markDirty(3 + uint64(op.LSN))
				r.m.dirty[n] = true
			}
			r.nodes[op.Key] = n
		}
		wantOK, evicted, skipped := r.m.set(op.Key, n)
		gotOK := r.lru.set(c15Key(op.Key), n)
		if gotOK != wantOK {
			if !wantOK {
				return fmt.Sprintf("set(%d) into a cache full of dirty pages returned true, must be refused", op.Key)
			}
			return fmt.Sprintf("set(%d) was refused although a clean page could be evicted or the cache is not full", op.Key)
		}
		if !wantOK {
			r.refused++
		}
		if evicted >= 0 {
			r.evicts++
			if skipped {
				r.evSkip++
			}
		}
	case "get":
		wantN, wantOK := r.m.get(op.Key)
		gotN, gotOK := r.lru.get(c15Key(op.Key))
		if gotOK != wantOK {
			return fmt.Sprintf("get(%d): found=%v, expected %v", op.Key, gotOK, wantOK)
		}
		if gotN != wantN {
			return fmt.Sprintf("get(%d) returned a different page object than the one most recently stored", op.Key)
		}
	case "dirty":
		// (log sequence numbers may go down as well as up: after a crash the counter is
		// rebuilt, and replay stamps pages with the numbers of old records)
		if i := r.m.find(op.Key); i >= 0 {
			r.m.entries[i].node.markDirty(2 + uint64(op.LSN))
			r.m.dirty[r.m.entries[i].node] = true
		}
	case "clean":
		if i := r.m.find(op.Key); i >= 0 {
			r.m.entries[i].node.markClean()
			r.m.dirty[r.m.entries[i].node] = false
		}
	}
	return r.compare()
}

func (r *c15Runner) compare() string {
	if len(r.lru.cache) > r.m.cap || r.lru.list.Len() > r.m.cap {
		return fmt.Sprintf("cache holds %d entries (list %d), capacity is %d", len(r.lru.cache), r.lru.list.Len(), r.m.cap)
	}
	if len(r.lru.cache) != len(r.m.entries) || r.lru.list.Len() != len(r.m.entries) {
		return fmt.Sprintf("cache holds %d entries (list %d), expected %d: %s", len(r.lru.cache), r.lru.list.Len(), len(r.m.entries), r.describe())
	}
	i := 0
	for e := r.lru.list.Front(); e != nil; e = e.Next() {
		ce := e.Value.(*cacheEntry)
		want := r.m.entries[i]
		if ce.key != c15Key(want.key) {
			return fmt.Sprintf("recency order differs at position %d: %s", i, r.describe())
		}
		if ce.val != want.node {
			return fmt.Sprintf("key %d holds a different page object than the one most recently stored", want.key)
		}
		if el, ok := r.lru.cache[ce.key]; !ok || el != e {
			return fmt.Sprintf("index and list disagree for key %v", ce.key)
		}
		if ce.val.isDirty() != r.m.dirty[want.node] {
			return fmt.Sprintf("page %d reports dirty=%v after its last dirty/clean transition, expected %v", want.key, ce.val.isDirty(), r.m.dirty[want.node])
		}
		i++
	}
	return ""
}

func (r *c15Runner) describe() string {
	got, want := "", ""
	for e := r.lru.list.Front(); e != nil; e = e.Next() {
		ce := e.Value.(*cacheEntry)
		got += fmt.Sprintf("%v%s ", ce.key, map[bool]string{true: "*", false: ""}[ce.val.isDirty()])
	}
	for _, e := range r.m.entries {
		want += fmt.Sprintf("%v%s ", e.key, map[bool]string{true: "*", false: ""}[r.m.dirty[e.node]])
	}
	return fmt.Sprintf("cache (most recent first, * dirty) [%s] expected [%s]", got, want)
}

func c15Run(c c15Case, st *vlib.Stats) string {
	r := newC15Runner(c.Cap)
	var ops []c15Op
	for _, op := range c.Ops {
		if op.N <= 1 {
			ops = append(ops, op)
			continue
		}
		for k := 0; k < op.N; k++ {
			key := op.Key + k // set, fetch: consecutive pages (a load, a table scan)
			if op.Op == "get" {
				key = op.Key // a burst of lookups of one page
			}
			ops = append(ops, c15Op{Op: op.Op, Key: key, Dirty: op.Dirty, Fresh: op.Fresh})
		}
	}
	for i, op := range ops {
		var msg string
		func() {
			defer func() {
				if p := recover(); p != nil {
					msg = fmt.Sprintf("panic: %v", p)
				}
			}()
			msg = r.step(op)
		}()
		if msg != "" {
			return fmt.Sprintf("capacity %d, step %d (%s %d): %s", c.Cap, i, op.Op, op.Key, msg)
		}
	}
	b, _ := json.Marshal(c)
	var labels []string
	if r.evSkip > 0 {
		labels = append(labels, "eviction-skipped-dirty")
	}
	if r.refused > 0 {
		labels = append(labels, "insertion-refused")
	}
	if r.evicts > 0 {
		labels = append(labels, "eviction")
	}
	if c.Cap > 1024 {
		labels = append(labels, "capacity-over-1024")
	}
	st.Record(b, r.evSkip > 0 || r.refused > 0, labels...)
	return ""
}

// c15GenLarge: capacities of the order the engine uses (10000), driven with
// runs of insertions so that long stretches of the recency list are dirty.
func c15GenLarge(t *rapid.T) c15Case {
	c := c15Case{Cap: rapid.SampledFrom([]int{1025, 1100, 1300, 2000, 2500}).Draw(t, "cap_large")}
	next := 0
	for k := rapid.IntRange(2, 7).Draw(t, "nruns"); k > 0; k-- {
		n := rapid.SampledFrom([]int{1, 10, 70, 300, 1024, 1030, c.Cap - 10, c.Cap}).Draw(t, "run")
		c.Ops = append(c.Ops, c15Op{Op: "set", Key: next, N: n, Dirty: rapid.Bool().Draw(t, "rundirty")})
		next += n
		for j := rapid.IntRange(0, 12).Draw(t, "between"); j > 0; j-- {
			op := c15Op{Op: rapid.SampledFrom([]string{"set", "get", "dirty", "clean", "set"}).Draw(t, "op"), Key: rapid.IntRange(0, next+3).Draw(t, "key")}
			if op.Op == "set" {
				op.Dirty = rapid.IntRange(0, 3).Draw(t, "setdirty") == 0
				op.Fresh = rapid.IntRange(0, 3).Draw(t, "fresh") == 0
			}
			c.Ops = append(c.Ops, op)
		}
	}
	return c
}

func c15Gen(t *rapid.T) c15Case {
	if rapid.IntRange(0, 99).Draw(t, "large") == 41 {
		return c15GenLarge(t)
	}
	c := c15Case{Cap: rapid.OneOf(rapid.IntRange(1, 6), rapid.IntRange(5, 64)).Draw(t, "cap")}
	nkeys := c.Cap + rapid.IntRange(1, 4).Draw(t, "extra")
	n := rapid.IntRange(20, 400).Draw(t, "nops")
	if c.Cap > 8 {
		n = rapid.IntRange(200, 2000).Draw(t, "nops_long")
	}
	for i := 0; i < n; i++ {
		op := c15Op{Op: rapid.SampledFrom([]string{"set", "set", "set", "get", "get", "dirty", "dirty", "clean"}).Draw(t, "op"), Key: rapid.IntRange(0, nkeys-1).Draw(t, "key")}
		if op.Op == "set" {
			op.Dirty = rapid.IntRange(0, 3).Draw(t, "setdirty") == 0
			op.Fresh = rapid.IntRange(0, 3).Draw(t, "fresh") == 0
		}
		if op.Op == "dirty" || op.Dirty {
			op.LSN = rapid.SampledFrom([]int{0, 0, 1, 5, 40}).Draw(t, "lsn")
		}
		if op.Op == "get" && rapid.IntRange(0, 19).Draw(t, "scan") == 3 {
			// a scan over consecutive pages, most of them not resident
			op.Op = "fetch"
			op.N = rapid.SampledFrom([]int{3, 5, 6, 9, 20}).Draw(t, "scanlen")
		}
		if op.Op == "get" && rapid.IntRange(0, 19).Draw(t, "burst") == 7 {
			// a read burst: many lookups in a row with no insertion in between
			op.N = rapid.SampledFrom([]int{20, 63, 64, 65, 70, 130, 300}).Draw(t, "burstlen")
		}
		c.Ops = append(c.Ops, op)
	}
	return c
}

// c15Exhaustive explores every operation sequence up to the depth bound for
// small capacities and key sets, comparing after every step.
func c15Exhaustive(st *vlib.Stats, cfg vlib.Config, depth int) string {
	total := 0
	for cap := 1; cap <= 3; cap++ {
		nkeys := cap + 1
		var alphabet []c15Op
		for k := 0; k < nkeys; k++ {
			alphabet = append(alphabet, c15Op{Op: "set", Key: k}, c15Op{Op: "set", Key: k, Dirty: true, Fresh: true}, c15Op{Op: "get", Key: k}, c15Op{Op: "dirty", Key: k}, c15Op{Op: "clean", Key: k})
		}
		var path []c15Op
		var failMsg string
		var rec func(r *c15Runner, d int) bool
		rec = func(r *c15Runner, d int) bool {
			if d == depth {
				total++
				if r.evSkip > 0 || r.refused > 0 {
					st.AddExtra("exhaustive_nontrivial_sequences", 1)
				}
				return true
			}
			for ai, op := range alphabet {
				if d == 0 && ai%cfg.Shards != cfg.Shard {
					continue // the first operation partitions the space over the shards
				}
				c := r.clone()
				path = append(path, op)
				if msg := c.step(op); msg != "" {
					failMsg = fmt.Sprintf("capacity %d, after %d steps: %s", cap, len(path), msg)
					b, _ := json.Marshal(c15Case{Cap: cap, Ops: append([]c15Op{}, path...)})
					st.Fail(failMsg, b)
					return false
				}
				if !rec(c, d+1) {
					return false
				}
				path = path[:len(path)-1]
			}
			return true
		}
		if !rec(newC15Runner(cap), 0) {
			return failMsg
		}
	}
	st.AddExtra("exhaustive_sequences", total)
	return ""
}

func TestVerifC15(t *testing.T) {
	cfg := vlib.GetConfig()
	st := vlib.NewStats("C15")
	defer st.Write(cfg, "C15")
	if cfg.Replay == "" {
		depth := 5
		if cfg.Tier == "thorough" {
			depth = 6
		}
		if msg := c15Exhaustive(st, cfg, depth); msg != "" {
			vlib.Logf("FAIL C15 (exhaustive): %s", msg)
			return
		}
	}
	storeReplay := false
	if cfg.Replay != "" {
		if raw, err := vlib.LoadReplay(cfg.Replay); err == nil && bytes.Contains(raw, []byte(`"store_ops"`)) {
			storeReplay = true
		}
	}
	if !storeReplay {
		vlib.DriveWith(t, vlib.Prop[c15Case]{ID: "C15", Gen: c15Gen, Run: c15Run}, cfg, st)
	}
	if st.Failed() || (cfg.Replay != "" && !storeReplay) {
		return
	}
	// the cache as the file store uses it
	scfg := cfg
	scfg.Checks = cfg.Checks / 25
	if scfg.Checks < 20 {
		scfg.Checks = 20
	}
	vlib.DriveWith(t, vlib.Prop[c15StoreCase]{ID: "C15", Gen: c15StoreGen, Run: c15StoreRun}, scfg, st)
}
