package storage

// C12 - a page written to disk reads back as the same page.
//
// Nodes are built with the engine's own mutators (insertLeafCell,
// appendInternalCell, split, tombstone assignment as MarkDeleted does it), so
// only shapes the engine can produce arise. Oracle: encode yields exactly 4096
// bytes, decode(encode(n)) has the same logical content, the same holds through
// fileStore.update + cold fetch, and encode is idempotent over a round trip.

import (
	"bytes"
	"encoding/json"
	"fmt"
	"os"
	"path/filepath"
	"testing"

	"pgregory.net/rapid"
	"verif/vlib"
)

type c12Cell struct {
	Key     uint32 `json:"k"`
	Deleted bool   `json:"d,omitempty"`
	ValLen  int    `json:"n"`
	ValKind int    `json:"vk"` // 0 zeros, 1 0xFF, 2 pattern
	Child   uint64 `json:"c,omitempty"`
}

type c12Case struct {
	Leaf       bool      `json:"leaf"`
	FileOffset uint64    `json:"off"`
	LSN        uint64    `json:"lsn"`
	HasL       bool      `json:"hasL,omitempty"`
	HasR       bool      `json:"hasR,omitempty"`
	LSib       uint64    `json:"lsib,omitempty"`
	RSib       uint64    `json:"rsib,omitempty"`
	Right      uint64    `json:"right,omitempty"`
	Cells      []c12Cell `json:"cells"`
	Split      bool      `json:"split,omitempty"` // split the built node and check both halves
	// for internal nodes with many cells the cells are derived, not listed
	NCells    int    `json:"ncells,omitempty"`
	KeyStart  uint32 `json:"kstart,omitempty"`
	KeyStride uint32 `json:"kstride,omitempty"`
}

func c12Value(c c12Cell) []byte {
	v := make([]byte, c.ValLen)
	switch c.ValKind {
	case 1:
		for i := range v {
			v[i] = 0xFF
		}
	case 2:
		for i := range v {
			v[i] = byte(uint32(i)*31 + c.Key*7 + 1)
		}
	}
	return v
}

// logical content of a node, independent of in-memory representation details
type c12Logical struct {
	Leaf                  bool
	FileOffset, LSN       uint64
	HasL, HasR            bool
	LSib, RSib, RightMost uint64
	Keys                  []uint32
	Deleted               []bool
	Values                [][]byte
	Children              []uint64
}

func c12LogicalOf(n *btreeNode) c12Logical {
	l := c12Logical{Leaf: n.isLeaf, FileOffset: n.fileOffset, LSN: n.lastLSN}
	if n.isLeaf {
		l.HasL, l.HasR, l.LSib, l.RSib = n.hasLSib, n.hasRSib, n.lSibFileOffset, n.rSibFileOffset
		for _, o := range n.offsets {
			c := n.leafCells[o]
			l.Keys = append(l.Keys, c.key)
			l.Deleted = append(l.Deleted, c.deleted)
			l.Values = append(l.Values, append([]byte{}, c.valueBytes...))
			if int(c.valueSize) != len(c.valueBytes) {
				l.Values = append(l.Values, []byte(fmt.Sprintf("valueSize=%d", c.valueSize)))
			}
		}
	} else {
		l.RightMost = n.rightOffset
		for _, o := range n.offsets {
			c := n.internalCells[o]
			l.Keys = append(l.Keys, c.key)
			l.Children = append(l.Children, c.fileOffset)
		}
	}
	return l
}

func c12Equal(a, b c12Logical) string {
	ja, _ := json.Marshal(a)
	jb, _ := json.Marshal(b)
	if !bytes.Equal(ja, jb) {
		sa, sb := string(ja), string(jb)
		if len(sa) > 600 {
			sa = sa[:600] + "..."
		}
		if len(sb) > 600 {
			sb = sb[:600] + "..."
		}
		return fmt.Sprintf("logical content differs:\n before: %s\n after:  %s", sa, sb)
	}
	return ""
}

// c12Build constructs the node(s) of a case with the engine's mutators.
func c12Build(c c12Case) (nodes []*btreeNode, err error) {
	n := &btreeNode{isLeaf: c.Leaf}
	n.setFileOffset(c.FileOffset)
	if c.Leaf {
		for i, cell := range c.Cells {
			if err := n.insertLeafCell(uint32(i), cell.Key, c12Value(cell)); err != nil {
				return nil, err
			}
			if cell.Deleted {
				n.leafCells[n.offsets[i]].deleted = true
			}
		}
		n.hasLSib, n.hasRSib, n.lSibFileOffset, n.rSibFileOffset = c.HasL, c.HasR, c.LSib, c.RSib
	} else {
		if c.NCells > 0 {
			for i := 0; i < c.NCells; i++ {
				n.appendInternalCell(c.KeyStart+uint32(i)*c.KeyStride, c.FileOffset+uint64(i+1)*pageSize)
			}
		} else {
			for _, cell := range c.Cells {
				n.appendInternalCell(cell.Key, cell.Child)
			}
		}
		n.setRightMostKey(c.Right)
	}
	n.markDirty(c.LSN)
	nodes = append(nodes, n)
	if c.Split && len(n.offsets) >= 2 {
		newPg := &btreeNode{isLeaf: c.Leaf}
		newPg.setFileOffset(c.FileOffset + 77*pageSize)
		if _, err := n.split(newPg); err != nil {
			return nil, err
		}
		newPg.markDirty(c.LSN)
		if c.Leaf {
			// the linking insertLeaf performs after a split
			n.hasRSib, n.rSibFileOffset = true, newPg.fileOffset
			newPg.hasLSib, newPg.lSibFileOffset = true, n.fileOffset
		}
		nodes = append(nodes, newPg)
	}
	return nodes, nil
}

var c12Store *fileStore

func c12GetStore() *fileStore {
	if c12Store == nil {
		fs, err := newFileStore(filepath.Join(".", "c12.tbl"), false)
		if err != nil {
			panic(err)
		}
		c12Store = fs
	}
	return c12Store
}

func c12CheckNode(n *btreeNode) string {
	before := c12LogicalOf(n)
	var buf *bytes.Buffer
	var err error
	func() {
		defer func() {
			if r := recover(); r != nil {
				err = fmt.Errorf("encode panicked: %v", r)
			}
		}()
		buf, err = n.encode()
	}()
	if err != nil {
		return fmt.Sprintf("encode failed: %v", err)
	}
	if buf.Len() != pageSize {
		return fmt.Sprintf("encoded page has %d bytes, want %d", buf.Len(), pageSize)
	}
	page := append([]byte{}, buf.Bytes()...)
	// dispatch byte
	wantType := InternalNode
	if n.isLeaf {
		wantType = LeafNode
	}
	if page[0] != wantType {
		return fmt.Sprintf("first byte %d does not announce node kind %d", page[0], wantType)
	}
	// route 1: direct decode
	m := &btreeNode{isLeaf: n.isLeaf}
	func() {
		defer func() {
			if r := recover(); r != nil {
				err = fmt.Errorf("decode panicked: %v", r)
			}
		}()
		err = m.decode(bytes.NewBuffer(append([]byte{}, page...)))
	}()
	if err != nil {
		return fmt.Sprintf("decode failed: %v", err)
	}
	if msg := c12Equal(before, c12LogicalOf(m)); msg != "" {
		return "decode(encode(n)): " + msg
	}
	// idempotence
	buf2, err := m.encode()
	if err != nil {
		return fmt.Sprintf("re-encode failed: %v", err)
	}
	// a second round trip must still mean the same page (bytes need not be
	// identical: what the free area holds is the encoder's business)
	m2 := &btreeNode{isLeaf: n.isLeaf}
	if buf2.Len() != pageSize {
		return fmt.Sprintf("re-encoded page has %d bytes", buf2.Len())
	}
	if err := m2.decode(bytes.NewBuffer(append([]byte{}, buf2.Bytes()...))); err != nil {
		return fmt.Sprintf("decode of the re-encoded page failed: %v", err)
	}
	if msg := c12Equal(before, c12LogicalOf(m2)); msg != "" {
		return "decode(encode(decode(encode(n)))): " + msg
	}
	// A page that was read back must also BEHAVE like the page that was written:
	// the same change applied to it gives the same page (so that evicting or
	// restarting never changes what a page means for the statements that follow).
	if n.isLeaf && len(before.Keys) > 0 {
		total := 64
		for _, v := range before.Values {
			total += len(v) + 16
		}
		for _, idx := range []int{0, len(before.Keys) / 2, len(before.Keys) - 1} {
			d := &btreeNode{isLeaf: true}
			if err := d.decode(bytes.NewBuffer(append([]byte{}, page...))); err != nil {
				return fmt.Sprintf("decode failed: %v", err)
			}
			old := before.Values[idx]
			grow := 0
			if total+40 <= pageSize && len(old)+40 <= maxValueSize {
				grow = 11 + idx%29
			}
			nv := make([]byte, len(old)+grow)
			for i := range nv {
				nv[i] = byte(0xA0 + (i+idx)%64)
			}
			var uerr error
			func() {
				defer func() {
					if r := recover(); r != nil {
						uerr = fmt.Errorf("panic: %v", r)
					}
				}()
				uerr = d.updateCell(before.Keys[idx], nv)
			}()
			if uerr != nil {
				return fmt.Sprintf("updateCell on the page read back failed: %v", uerr)
			}
			want := c12LogicalOf(n)
			want.Values = append([][]byte{}, before.Values...)
			want.Values[idx] = nv
			if msg := c12Equal(want, c12LogicalOf(d)); msg != "" {
				return fmt.Sprintf("after updating cell %d (value of %d bytes replaced by %d bytes) on the page read back: %s", idx, len(old), len(nv), msg)
			}
			// an update the page refuses (a value over the limit) must leave it as it was
			tooBig := make([]byte, maxValueSize+1)
			var rerr error
			func() {
				defer func() {
					if r := recover(); r != nil {
						rerr = nil // a panic is not a refusal; nothing to conclude here
					}
				}()
				rerr = d.updateCell(before.Keys[idx], tooBig)
			}()
			if rerr != nil {
				if msg := c12Equal(want, c12LogicalOf(d)); msg != "" {
					return fmt.Sprintf("updateCell refused a %d-byte value for cell %d (%v) but changed the page: %s", len(tooBig), idx, rerr, msg)
				}
			} else {
				// accepted (a tree with another limit): take it as the new content
				want.Values[idx] = tooBig
			}
			buf3, err := d.encode()
			if err != nil {
				return fmt.Sprintf("encode after an update on the page read back failed: %v", err)
			}
			d2 := &btreeNode{isLeaf: true}
			if err := d2.decode(bytes.NewBuffer(append([]byte{}, buf3.Bytes()...))); err != nil {
				return fmt.Sprintf("decode after an update on the page read back failed: %v", err)
			}
			if msg := c12Equal(want, c12LogicalOf(d2)); msg != "" {
				return fmt.Sprintf("after updating cell %d on the page read back, writing and reading it again: %s", idx, msg)
			}
		}
	}
	// route 2: through the file store with a cold cache. The file offset is
	// remapped into a small file; the logical comparison accounts for that.
	fs := c12GetStore()
	orig := n.fileOffset
	slot := uint64(pageSize) * (1 + orig%8)
	n.fileOffset = slot
	defer func() { n.fileOffset = orig }()
	if err := fs.update(n); err != nil {
		return fmt.Sprintf("fileStore.update failed: %v", err)
	}
	fs.cache = NewLRU(16) // cold cache
	var got *btreeNode
	func() {
		defer func() {
			if r := recover(); r != nil {
				err = fmt.Errorf("fetch panicked: %v", r)
			}
		}()
		got, err = fs.fetch(slot)
	}()
	if err != nil {
		return fmt.Sprintf("fileStore.fetch failed: %v", err)
	}
	want := before
	want.FileOffset = slot
	if msg := c12Equal(want, c12LogicalOf(got)); msg != "" {
		return "fetch(update(n)): " + msg
	}
	return ""
}

func c12Run(c c12Case, st *vlib.Stats) string {
	nodes, err := c12Build(c)
	if err != nil {
		return fmt.Sprintf("mutator refused an admissible node: %v", err)
	}
	ncells := len(c.Cells)
	if c.NCells > 0 {
		ncells = c.NCells
	}
	nontrivial := false
	labels := []string{}
	if c.Leaf {
		tomb, maxv := false, false
		for _, cell := range c.Cells {
			tomb = tomb || cell.Deleted
			maxv = maxv || cell.ValLen == maxValueSize
		}
		if tomb && (c.HasL || c.HasR) {
			nontrivial = true
			labels = append(labels, "leaf-tombstone+sibling")
		}
		if ncells >= maxLeafNodeCells-1 && maxv {
			nontrivial = true
			labels = append(labels, "leaf-max-occupancy-maxvalue")
		}
		if tomb && c.Split {
			labels = append(labels, "leaf-split-with-tombstone")
		}
		labels = append(labels, fmt.Sprintf("leaf-cells-%d", ncells))
	} else {
		if ncells >= maxInternalNodeCells-1 {
			nontrivial = true
			labels = append(labels, "internal-max-occupancy")
		}
		if ncells == 0 {
			labels = append(labels, "internal-empty")
		}
		labels = append(labels, fmt.Sprintf("internal-cells-%d", (ncells/50)*50))
	}
	if c.Split {
		labels = append(labels, "post-split")
	}
	b, _ := json.Marshal(c)
	st.Record(b, nontrivial, labels...)
	for i, n := range nodes {
		if msg := c12CheckNode(n); msg != "" {
			return fmt.Sprintf("node %d of case: %s", i, msg)
		}
	}
	return ""
}

func c12Gen(t *rapid.T) c12Case {
	c := c12Case{}
	c.Leaf = rapid.IntRange(0, 9).Draw(t, "kind") < 7
	c.FileOffset = uint64(rapid.IntRange(0, 1<<20).Draw(t, "page")) * pageSize
	c.LSN = rapid.OneOf(rapid.Uint64Range(0, 1000), rapid.Uint64()).Draw(t, "lsn")
	if c.Leaf {
		c.HasL = rapid.Bool().Draw(t, "hasL")
		c.HasR = rapid.Bool().Draw(t, "hasR")
		c.LSib = rapid.OneOf(rapid.Just(uint64(0)), rapid.Uint64Range(0, 1<<40)).Draw(t, "lsib")
		c.RSib = rapid.OneOf(rapid.Just(uint64(0)), rapid.Uint64Range(0, 1<<40)).Draw(t, "rsib")
		n := rapid.IntRange(0, maxLeafNodeCells).Draw(t, "n")
		key := rapid.Uint32Range(0, 1<<31).Draw(t, "key0")
		for i := 0; i < n; i++ {
			key += rapid.Uint32Range(1, 1000).Draw(t, "dk")
			cell := c12Cell{Key: key}
			cell.ValLen = rapid.OneOf(rapid.SampledFrom([]int{0, 1, 399, 400}), rapid.IntRange(0, maxValueSize)).Draw(t, "vlen")
			cell.ValKind = rapid.IntRange(0, 2).Draw(t, "vkind")
			cell.Deleted = rapid.IntRange(0, 3).Draw(t, "del") == 0
			c.Cells = append(c.Cells, cell)
		}
		c.Split = n >= 2 && rapid.IntRange(0, 3).Draw(t, "split") == 0
	} else {
		c.Right = rapid.Uint64Range(0, 1<<40).Draw(t, "right")
		c.NCells = rapid.OneOf(rapid.IntRange(0, 8), rapid.IntRange(0, maxInternalNodeCells),
			rapid.SampledFrom([]int{maxInternalNodeCells - 1, maxInternalNodeCells})).Draw(t, "ncells")
		c.KeyStart = rapid.Uint32Range(0, 1<<20).Draw(t, "kstart")
		c.KeyStride = rapid.Uint32Range(1, 5000).Draw(t, "kstride")
		c.Split = c.NCells >= 3 && rapid.IntRange(0, 3).Draw(t, "split") == 0
		if c.NCells == 0 {
			c.KeyStart, c.KeyStride = 0, 0
		}
	}
	return c
}

// c12Exhaustive enumerates all small leaf shapes: up to 3 cells, value sizes
// {0,1,400}, every tombstone subset, all four sibling-flag combinations.
func c12Exhaustive(st *vlib.Stats) string {
	sizes := []int{0, 1, maxValueSize}
	for n := 0; n <= 3; n++ {
		total := 1
		for i := 0; i < n; i++ {
			total *= len(sizes) * 2
		}
		for code := 0; code < total; code++ {
			for flags := 0; flags < 4; flags++ {
				c := c12Case{Leaf: true, FileOffset: pageSize * 3, LSN: 42, HasL: flags&1 != 0, HasR: flags&2 != 0, LSib: pageSize, RSib: 2 * pageSize}
				x := code
				for i := 0; i < n; i++ {
					c.Cells = append(c.Cells, c12Cell{Key: uint32(10 + i), ValLen: sizes[x%3], ValKind: 2, Deleted: (x/3)%2 == 1})
					x /= 6
				}
				if msg := c12Run(c, st); msg != "" {
					b, _ := json.Marshal(c)
					st.Fail(msg, b)
					return msg
				}
				st.AddExtra("exhaustive_small_shapes", 1)
			}
		}
	}
	return ""
}

func TestVerifC12(t *testing.T) {
	cfg := vlib.GetConfig()
	st := vlib.NewStats("C12")
	defer st.Write(cfg, "C12")
	defer os.Remove("c12.tbl")
	if cfg.Replay == "" && cfg.Shard == 0 {
		if msg := c12Exhaustive(st); msg != "" {
			vlib.Logf("FAIL C12 (exhaustive): %s", msg)
			return
		}
	}
	engReplay := false
	if cfg.Replay != "" {
		if raw, err := vlib.LoadReplay(cfg.Replay); err == nil && bytes.Contains(raw, []byte(`"phases"`)) {
			engReplay = true
		}
	}
	if !engReplay {
		vlib.DriveWith(t, vlib.Prop[c12Case]{ID: "C12", Gen: c12Gen, Run: c12Run}, cfg, st)
	}
	if st.Failed() || (cfg.Replay != "" && !engReplay) {
		return
	}
	// pages produced by the engine itself under queue-like workloads
	ecfg := cfg
	ecfg.Checks = cfg.Checks / 40
	if ecfg.Checks < 25 {
		ecfg.Checks = 25
	}
	vlib.DriveWith(t, vlib.Prop[c12EngCase]{ID: "C12", Gen: c12EngGen, Run: c12EngRun}, ecfg, st)
}
