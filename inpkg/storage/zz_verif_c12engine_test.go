package storage

// C12, second part: the pages the engine itself produces. A table is driven
// through RelationService in phases - fill, churn (a queue: insert one row,
// delete one), grow and shrink rows by UPDATE, purge, flush + cold cache - and
// after every single operation every page in the cache must serialise to
// exactly one 4096-byte page that reads back as the same page. The first part
// builds pages of the shapes the unchanged insertion policy produces (at most
// nine cells); this part takes whatever the policy in the tree under test
// makes of a workload.

import (
	"bytes"
	"encoding/json"
	"fmt"
	"os"

	"pgregory.net/rapid"

	"verif/vlib"
)

type c12Phase struct {
	Kind string `json:"kind"` // fill | churn | grow | shrink | purge | reload
	N    int    `json:"n,omitempty"`
	Size int    `json:"size,omitempty"`
	Old  bool   `json:"old,omitempty"` // churn deletes the oldest live row (else the row just inserted)
}

type c12EngCase struct {
	Phases []c12Phase `json:"phases"`
}

func c12EngGen(t *rapid.T) c12EngCase {
	var c c12EngCase
	sizes := []int{1, 20, 60, 115, 200, 300, 390}
	for n := rapid.IntRange(2, 9).Draw(t, "nphases"); n > 0; n-- {
		p := c12Phase{Kind: rapid.SampledFrom([]string{"fill", "fill", "churn", "churn", "churn", "grow", "grow", "shrink", "purge", "reload"}).Draw(t, "kind")}
		switch p.Kind {
		case "fill":
			p.N, p.Size = rapid.IntRange(1, 12).Draw(t, "n"), rapid.SampledFrom(sizes).Draw(t, "size")
		case "churn":
			p.N, p.Size, p.Old = rapid.IntRange(4, 40).Draw(t, "n"), rapid.SampledFrom(sizes).Draw(t, "size"), rapid.Bool().Draw(t, "old")
		case "grow":
			p.N, p.Size = rapid.IntRange(1, 10).Draw(t, "n"), rapid.SampledFrom([]int{150, 200, 300, 390}).Draw(t, "size")
		case "shrink":
			p.N, p.Size = rapid.IntRange(1, 10).Draw(t, "n"), rapid.SampledFrom([]int{0, 1, 20}).Draw(t, "size")
		}
		c.Phases = append(c.Phases, p)
	}
	return c
}

// c12RoundTrip: n serialises to one page that reads back as the same page.
func c12RoundTrip(n *btreeNode) string {
	before := c12LogicalOf(n)
	var buf *bytes.Buffer
	var err error
	func() {
		defer func() {
			if r := recover(); r != nil {
				err = fmt.Errorf("encode panicked: %v", r)
			}
		}()
		buf, err = n.encode()
	}()
	if err != nil {
		return fmt.Sprintf("encode failed: %v", err)
	}
	if buf.Len() != pageSize {
		return fmt.Sprintf("encoded page has %d bytes, want %d", buf.Len(), pageSize)
	}
	m := &btreeNode{isLeaf: n.isLeaf}
	func() {
		defer func() {
			if r := recover(); r != nil {
				err = fmt.Errorf("decode panicked: %v", r)
			}
		}()
		err = m.decode(bytes.NewBuffer(append([]byte{}, buf.Bytes()...)))
	}()
	if err != nil {
		return fmt.Sprintf("decode failed: %v", err)
	}
	if msg := c12Equal(before, c12LogicalOf(m)); msg != "" {
		return "decode(encode(n)): " + msg
	}
	return ""
}

func c12EngRun(c c12EngCase, st *vlib.Stats) string {
	VerifNoTimer = true
	os.RemoveAll(dataPath)
	defer os.RemoveAll(dataPath)
	const db, tbl = "c12db", "queue"
	if err := CreateDB(db); err != nil {
		return "CreateDB failed: " + err.Error()
	}
	rs, err := OpenRelation(db, true)
	if err != nil {
		return "OpenRelation failed: " + err.Error()
	}
	defer rs.VerifAbandon()
	if err := rs.CreateTable(c11Rel, tbl); err != nil {
		return "CreateTable failed: " + err.Error()
	}
	var live []uint32
	seq := 0
	maxCells, tombstones := 0, 0
	guard := func(f func() error) (err error) {
		defer func() {
			if r := recover(); r != nil {
				err = fmt.Errorf("PANIC: %v", r)
			}
		}()
		return f()
	}
	pages := func(where string) string {
		for _, el := range rs.fs.cache.cache {
			n := el.Value.(*cacheEntry).val
			if msg := c12RoundTrip(n); msg != "" {
				return fmt.Sprintf("%s: page at offset %d (leaf %v, %d cells): %s", where, n.getFileOffset(), n.isLeaf, len(n.offsets), msg)
			}
			if n.isLeaf && len(n.offsets) > maxCells {
				maxCells = len(n.offsets)
			}
		}
		return ""
	}
	insert := func(size int) error {
		return guard(func() error {
			seq++
			w, err := rs.Insert(tbl, nil, []interface{}{int64(seq), c11Payload(size)})
			if err != nil {
				return err
			}
			live = append(live, w[0].cellID)
			return rs.FlushWALBatch(w)
		})
	}
	remove := func(idx int) error {
		return guard(func() error {
			w, err := rs.MarkDeleted(tbl, live[idx])
			if err != nil {
				return err
			}
			live = append(live[:idx], live[idx+1:]...)
			tombstones++
			return rs.FlushWALBatch(w)
		})
	}
	update := func(idx, size int) error {
		return guard(func() error {
			w, err := rs.Update(tbl, live[idx], []string{"s"}, []interface{}{c11Payload(size)})
			if err != nil {
				return err
			}
			return rs.FlushWALBatch(w)
		})
	}
	for pi, p := range c.Phases {
		for k := 0; k < p.N || (k == 0 && (p.Kind == "purge" || p.Kind == "reload")); k++ {
			where := fmt.Sprintf("phase %d (%s, size %d), step %d", pi, p.Kind, p.Size, k)
			var err error
			switch p.Kind {
			case "fill":
				err = insert(p.Size)
			case "churn":
				if err = insert(p.Size); err == nil {
					if p.Old {
						err = remove(0)
					} else {
						err = remove(len(live) - 1)
					}
				}
			case "grow", "shrink":
				if k < len(live) {
					err = update(len(live)-1-k, p.Size) // the most recent rows first: they share the right-most leaf
				}
			case "purge":
				for len(live) > 0 && err == nil {
					err = remove(len(live) - 1)
				}
			case "reload":
				if err = guard(rs.fs.flushPages); err == nil {
					rs.fs.cache = NewLRU(10000)
					if _, _, ferr := rs.Fetch(tbl); ferr != nil {
						err = fmt.Errorf("scan after reload: %w", ferr)
					}
				}
			}
			if err != nil {
				return where + ": " + err.Error()
			}
			if msg := pages(where); msg != "" {
				return msg
			}
		}
	}
	// what the flush writes is what a reader finds
	if err := guard(rs.fs.flushPages); err != nil {
		return "closing flush: " + err.Error()
	}
	rs.fs.cache = NewLRU(10000)
	rows, _, err := rs.Fetch(tbl)
	if err != nil {
		return "scan after the closing flush: " + err.Error()
	}
	if len(rows) != len(live) {
		return fmt.Sprintf("after the closing flush and a cold cache the table has %d rows, %d are live", len(rows), len(live))
	}
	b, _ := json.Marshal(c)
	st.Record(b, tombstones >= 8 && seq >= 12, "engine-produced-pages", fmt.Sprintf("engine-pages-tombstones>=8-%v", tombstones >= 8), fmt.Sprintf("engine-pages-max-leaf-cells-%d", maxCells))
	return ""
}
