package storage

// C11 - the on-disk B+ tree keeps its shape invariants.
//
// Histories of CreateTable / Insert / Update / MarkDeleted / flush / reload /
// crash+recovery over several trees sharing one file are run through the real
// RelationService; after every operation (small scopes) a page-graph walker
// written from the definition checks every tree of the file. A direct
// BTree.insert driver builds trees of up to 200 000 keys (4 levels).

import (
	"encoding/json"
	"fmt"
	"math"
	"os"
	"testing"

	"pgregory.net/rapid"
	"verif/vlib"
)

type c11Op struct {
	Op    string `json:"op"` // create | insert | update | delete | flush | reload | reopen | crash
	Table int    `json:"t"`
	N     int    `json:"n,omitempty"`    // insert: number of rows
	Size  int    `json:"size,omitempty"` // payload size of the VARCHAR column
	Pick  int    `json:"pick,omitempty"` // update/delete: which live row (modulo)
}

type c11Case struct {
	Ops []c11Op `json:"ops"`
	// instead of a history: the direct BTree.insert driver with this many keys
	Big     int  `json:"big,omitempty"`
	BigFile bool `json:"big_file,omitempty"`
	// Frontier > 0: the history starts in a data file whose allocation frontier stands at this offset (a
	// database that has grown to 16 MiB, 2 GiB, 4 GiB): the pages the history allocates lie around that size
	Frontier uint64 `json:"frontier,omitempty"`
}

// ---------------------------------------------------------------- walker

type c11Tree struct {
	name   string
	root   uint64
	height int
	leaves []uint64
	keys   []uint32 // all keys in leaf order (tombstones included)
	live   []uint32
}

type c11Walker struct {
	st      store
	visited map[uint64]string
}

func (w *c11Walker) walkTree(name string, root uint64) (*c11Tree, string) {
	t := &c11Tree{name: name, root: root}
	leafDepth := -1
	var rec func(off uint64, lo, hi uint64, depth int) string
	rec = func(off uint64, lo, hi uint64, depth int) string {
		if who, seen := w.visited[off]; seen {
			return fmt.Sprintf("tree %s: page %d is reachable twice (already part of %s)", name, off, who)
		}
		w.visited[off] = name
		n, err := w.st.fetch(off)
		if err != nil {
			return fmt.Sprintf("tree %s: cannot fetch page %d: %v", name, off, err)
		}
		if n.getFileOffset() != off {
			return fmt.Sprintf("tree %s: page fetched at %d says its offset is %d", name, off, n.getFileOffset())
		}
		if depth > 12 {
			return fmt.Sprintf("tree %s: deeper than 12 levels (cycle?)", name)
		}
		var buf interface{ Len() int }
		func() {
			defer func() {
				if r := recover(); r != nil {
					err = fmt.Errorf("encode panicked: %v", r)
				}
			}()
			b, e := n.encode()
			buf, err = b, e
		}()
		if err != nil {
			return fmt.Sprintf("tree %s: page %d does not encode: %v", name, off, err)
		}
		if buf.Len() != pageSize {
			return fmt.Sprintf("tree %s: page %d encodes to %d bytes", name, off, buf.Len())
		}
		if n.isLeaf {
			if len(n.offsets) > maxLeafNodeCells {
				return fmt.Sprintf("tree %s: leaf %d holds %d cells, capacity %d", name, off, len(n.offsets), maxLeafNodeCells)
			}
			if leafDepth < 0 {
				leafDepth = depth
			} else if leafDepth != depth {
				return fmt.Sprintf("tree %s: leaf %d at depth %d, other leaves at depth %d", name, off, depth, leafDepth)
			}
			prev := int64(-1)
			for _, o := range n.offsets {
				if int(o) >= len(n.leafCells) || n.leafCells[o] == nil {
					return fmt.Sprintf("tree %s: leaf %d has a dangling cell offset %d", name, off, o)
				}
				c := n.leafCells[o]
				k := uint64(c.key)
				if int64(k) <= prev {
					return fmt.Sprintf("tree %s: keys in leaf %d are not strictly ascending (%d after %d)", name, off, k, prev)
				}
				if len(t.keys) > 0 && c.key <= t.keys[len(t.keys)-1] {
					return fmt.Sprintf("tree %s: key %d in leaf %d is not greater than the last key %d of the previous leaf", name, c.key, off, t.keys[len(t.keys)-1])
				}
				if k < lo || k >= hi {
					return fmt.Sprintf("tree %s: key %d in leaf %d is outside the bounds [%d,%d) given by its ancestors' separators", name, k, off, lo, hi)
				}
				prev = int64(k)
				t.keys = append(t.keys, c.key)
				if !c.deleted {
					t.live = append(t.live, c.key)
				}
			}
			t.leaves = append(t.leaves, off)
			return ""
		}
		if len(n.offsets) > maxInternalNodeCells {
			return fmt.Sprintf("tree %s: internal node %d holds %d cells, capacity %d", name, off, len(n.offsets), maxInternalNodeCells)
		}
		if len(n.offsets) == 0 {
			return fmt.Sprintf("tree %s: internal node %d has no separator", name, off)
		}
		curLo := lo
		for _, o := range n.offsets {
			if int(o) >= len(n.internalCells) || n.internalCells[o] == nil {
				return fmt.Sprintf("tree %s: internal node %d has a dangling cell offset %d", name, off, o)
			}
			c := n.internalCells[o]
			sep := uint64(c.key)
			if sep <= curLo {
				return fmt.Sprintf("tree %s: separator %d in node %d is not above the lower bound %d (separators must ascend strictly inside the parent's bounds)", name, sep, off, curLo)
			}
			if sep >= hi {
				return fmt.Sprintf("tree %s: separator %d in node %d is not below the upper bound %d given by its parent", name, sep, off, hi)
			}
			if msg := rec(c.fileOffset, curLo, sep, depth+1); msg != "" {
				return msg
			}
			curLo = sep
		}
		return rec(n.rightOffset, curLo, hi, depth+1)
	}
	if msg := rec(root, 0, math.MaxUint32+1, 0); msg != "" {
		return nil, msg
	}
	t.height = leafDepth + 1
	// sibling chains
	if len(t.leaves) > 0 {
		var fwd []uint64
		off := t.leaves[0]
		for i := 0; i <= len(t.leaves); i++ {
			n, err := w.st.fetch(off)
			if err != nil {
				return nil, fmt.Sprintf("tree %s: leaf chain: %v", name, err)
			}
			fwd = append(fwd, off)
			if i == 0 && n.hasLSib {
				return nil, fmt.Sprintf("tree %s: the left-most leaf %d claims a left sibling", name, off)
			}
			if !n.hasRSib {
				break
			}
			off = n.rSibFileOffset
		}
		if !c11SameOffsets(fwd, t.leaves) {
			return nil, fmt.Sprintf("tree %s: left-to-right leaf chain %v differs from the leaves in tree order %v", name, c11Trunc(fwd), c11Trunc(t.leaves))
		}
		var bwd []uint64
		off = t.leaves[len(t.leaves)-1]
		for i := 0; i <= len(t.leaves); i++ {
			n, err := w.st.fetch(off)
			if err != nil {
				return nil, fmt.Sprintf("tree %s: leaf chain: %v", name, err)
			}
			bwd = append(bwd, off)
			if i == 0 && n.hasRSib {
				return nil, fmt.Sprintf("tree %s: the right-most leaf %d claims a right sibling", name, off)
			}
			if !n.hasLSib {
				break
			}
			off = n.lSibFileOffset
		}
		rev := make([]uint64, len(bwd))
		for i, o := range bwd {
			rev[len(bwd)-1-i] = o
		}
		if !c11SameOffsets(rev, t.leaves) {
			return nil, fmt.Sprintf("tree %s: right-to-left leaf chain is not the exact reverse of the leaves in tree order: %v vs %v", name, c11Trunc(rev), c11Trunc(t.leaves))
		}
	}
	return t, ""
}

func c11SameOffsets(a, b []uint64) bool {
	if len(a) != len(b) {
		return false
	}
	for i := range a {
		if a[i] != b[i] {
			return false
		}
	}
	return true
}

func c11Trunc(a []uint64) []uint64 {
	if len(a) > 24 {
		return a[:24]
	}
	return a
}

// c11Lookup: every live key is found from the root, no tombstoned key is.
func c11Lookup(st store, t *c11Tree, sample int) string {
	bt := &BTree{store: st, rootOffset: t.root}
	liveSet := map[uint32]bool{}
	for _, k := range t.live {
		liveSet[k] = true
	}
	step := 1
	if sample > 0 && len(t.keys) > sample {
		step = len(t.keys) / sample
	}
	for i := 0; i < len(t.keys); i += step {
		k := t.keys[i]
		c, err := bt.findCell(k)
		if err != nil {
			return fmt.Sprintf("tree %s: point lookup of key %d failed: %v", t.name, k, err)
		}
		if liveSet[k] && (c == nil || c.key != k) {
			return fmt.Sprintf("tree %s: stored key %d is not found by point lookup from the root", t.name, k)
		}
		if !liveSet[k] && c != nil {
			return fmt.Sprintf("tree %s: deleted key %d is found by point lookup", t.name, k)
		}
	}
	return ""
}

// c11CheckFile walks the catalog trees and every user tree of the file.
func c11CheckFile(rs *RelationService, tables []string) (map[string]*c11Tree, string) {
	w := &c11Walker{st: rs.fs, visited: map[uint64]string{}}
	out := map[string]*c11Tree{}
	t, msg := w.walkTree(pageTableName, rs.fs.pageTableRoot)
	if msg != "" {
		return nil, msg
	}
	out[pageTableName] = t
	for _, name := range append([]string{schemaTableName}, tables...) {
		off, err := rs.getRelationFileOffset(name)
		if err != nil {
			return nil, fmt.Sprintf("catalog lookup of %s failed: %v", name, err)
		}
		t, msg := w.walkTree(name, uint64(off))
		if msg != "" {
			return nil, msg
		}
		if msg := c11Lookup(rs.fs, t, 0); msg != "" {
			return nil, msg
		}
		out[name] = t
	}
	return out, ""
}

// ---------------------------------------------------------------- histories

const c11DB = "c11db"

var c11Rel = &Relation{Fields: []FieldDef{{Name: "a", DataType: TypeInt}, {Name: "s", DataType: TypeVarchar, Len: 400}}}

func c11Gen(t *rapid.T) c11Case {
	var c c11Case
	if rapid.IntRange(0, 5).Draw(t, "bigfile") == 0 {
		c.Frontier = rapid.SampledFrom([]uint64{1<<24 - 2*pageSize, 1<<24 - 5*pageSize, 1<<24 + pageSize, 1<<31 - 3*pageSize, 1<<32 - 2*pageSize, 1<<32 - 6*pageSize}).Draw(t, "frontier")
	}
	n := rapid.IntRange(10, 120).Draw(t, "nops")
	ntables, maxTables := 0, 4
	if rapid.IntRange(0, 4).Draw(t, "manytables") == 0 {
		// a catalog spread over several pages: the row recording a tree's root
		// then lives in a catalog leaf, not in the catalog's root page
		maxTables = 11
		for k := rapid.IntRange(7, 9).Draw(t, "ntables"); k > 0; k-- {
			c.Ops = append(c.Ops, c11Op{Op: "create", Table: ntables})
			ntables++
		}
		n += len(c.Ops)
	}
	for len(c.Ops) < n {
		kind := "create"
		if ntables > 0 {
			w := []string{"insert", "insert", "insert", "insert", "insert", "update", "delete", "delete", "flush", "reload", "reopen", "crash", "wipe"}
			if ntables < maxTables {
				w = append(w, "create")
			}
			kind = rapid.SampledFrom(w).Draw(t, "op")
		}
		op := c11Op{Op: kind}
		switch kind {
		case "create":
			op.Table = ntables
			ntables++
		case "insert":
			op.Table = rapid.IntRange(0, ntables-1).Draw(t, "tbl")
			op.N = rapid.SampledFrom([]int{1, 1, 2, 4, 8, 9, 10, 17, 40}).Draw(t, "n")
			op.Size = rapid.SampledFrom([]int{1, 1, 10, 100, 390}).Draw(t, "size")
		case "wipe":
			// every live row of the tree deleted in one go (a queue that was drained, DELETE without WHERE)
			op.Table = rapid.IntRange(0, ntables-1).Draw(t, "tbl")
		case "update", "delete":
			op.Table = rapid.IntRange(0, ntables-1).Draw(t, "tbl")
			op.Pick = rapid.IntRange(0, 1000).Draw(t, "pick")
			op.Size = rapid.SampledFrom([]int{1, 10, 390}).Draw(t, "size")
		}
		c.Ops = append(c.Ops, op)
	}
	return c
}

// table names in creation order: several are proper prefixes of a name created
// EARLIER (and of the catalog tables' names)
var c11Names = []string{"t10", "t1", "orders_archive", "orders", "sys", "abc", "ab", "t", "s", "order", "t100"}

func c11TableName(i int) string {
	if i < len(c11Names) {
		return c11Names[i]
	}
	return fmt.Sprintf("u%d", i)
}

func c11Payload(n int) string {
	b := make([]byte, n)
	for i := range b {
		b[i] = byte('a' + i%26)
	}
	return string(b)
}

func c11Run(c c11Case, st *vlib.Stats) string {
	VerifNoTimer = true
	if c.Big > 0 {
		return c11Big(st, c.Big, c.BigFile)
	}
	os.RemoveAll(dataPath)
	defer os.RemoveAll(dataPath)
	if err := CreateDB(c11DB); err != nil {
		return "CreateDB failed: " + err.Error()
	}
	rs, err := OpenRelation(c11DB, true)
	if err != nil {
		return "OpenRelation failed: " + err.Error()
	}
	defer func() {
		if rs != nil {
			rs.VerifAbandon()
		}
	}()
	if c.Frontier > rs.fs.nextFreeOffset {
		// (the space in between is never referenced by anything; the file stays sparse)
		rs.fs.nextFreeOffset = c.Frontier
		if err := rs.fs.save(); err != nil {
			return "saving the header failed: " + err.Error()
		}
		st.Label("large-file(allocation frontier at 16 MiB / 2 GiB / 4 GiB)", 1)
	}
	var tables []string
	live := map[string][]uint32{}
	dead := map[string]map[uint32]bool{}
	splitsBefore := map[string]int{}
	reloadBetweenSplits, maxHeight, leaves := false, 1, 0
	reloaded := map[string]bool{}
	guard := func(f func() error) (err error) {
		defer func() {
			if r := recover(); r != nil {
				err = fmt.Errorf("PANIC: %v", r)
			}
		}()
		return f()
	}
	for i, op := range c.Ops {
		where := fmt.Sprintf("op %d (%s %s)", i, op.Op, c11TableName(op.Table))
		name := c11TableName(op.Table)
		switch op.Op {
		case "create":
			if err := guard(func() error { return rs.CreateTable(c11Rel, name) }); err != nil {
				return where + ": " + err.Error()
			}
			tables = append(tables, name)
			dead[name] = map[uint32]bool{}
		case "insert":
			if err := guard(func() error {
				var batch WALBatch
				for k := 0; k < op.N; k++ {
					w, err := rs.Insert(name, nil, []interface{}{int64(k), c11Payload(op.Size)})
					if err != nil {
						return err
					}
					batch = append(batch, w...)
					live[name] = append(live[name], w[0].cellID)
				}
				return rs.FlushWALBatch(batch)
			}); err != nil {
				return where + ": " + err.Error()
			}
		case "update", "delete":
			if len(live[name]) == 0 {
				continue
			}
			idx := op.Pick % len(live[name])
			id := live[name][idx]
			if err := guard(func() error {
				var w WALBatch
				var err error
				if op.Op == "update" {
					w, err = rs.Update(name, id, []string{"s"}, []interface{}{c11Payload(op.Size)})
				} else {
					w, err = rs.MarkDeleted(name, id)
				}
				if err != nil {
					return err
				}
				return rs.FlushWALBatch(w)
			}); err != nil {
				return where + ": " + err.Error()
			}
			if op.Op == "delete" {
				live[name] = append(live[name][:idx], live[name][idx+1:]...)
				dead[name][id] = true
			}
		case "wipe":
			if err := guard(func() error {
				var batch WALBatch
				for _, id := range live[name] {
					w, err := rs.MarkDeleted(name, id)
					if err != nil {
						return err
					}
					batch = append(batch, w...)
					dead[name][id] = true
				}
				live[name] = nil
				if len(batch) == 0 {
					return nil
				}
				return rs.FlushWALBatch(batch)
			}); err != nil {
				return where + ": " + err.Error()
			}
		case "flush":
			if err := guard(rs.fs.flushPages); err != nil {
				return where + ": " + err.Error()
			}
		case "reload":
			// everything on disk, then a cold cache
			if err := guard(rs.fs.flushPages); err != nil {
				return where + ": " + err.Error()
			}
			rs.fs.cache = NewLRU(10000)
			for _, n := range tables {
				reloaded[n] = true
			}
		case "reopen", "crash":
			if op.Op == "reopen" {
				if err := guard(rs.Close); err != nil {
					return where + ": close failed: " + err.Error()
				}
			} else {
				rs.VerifAbandon()
			}
			rs = nil
			if err := guard(InitStorage); err != nil {
				return where + ": recovery failed: " + err.Error()
			}
			rs, err = OpenRelation(c11DB, true)
			if err != nil {
				return where + ": OpenRelation failed: " + err.Error()
			}
			for _, n := range tables {
				reloaded[n] = true
			}
		}
		var trees map[string]*c11Tree
		var msg string
		if err := guard(func() error { trees, msg = c11CheckFile(rs, tables); return nil }); err != nil {
			return where + ": walker: " + err.Error()
		}
		if msg != "" {
			return where + ": " + msg
		}
		for _, n := range tables {
			t := trees[n]
			// the set of live keys equals what the history implies
			if len(t.live) != len(live[n]) {
				return fmt.Sprintf("%s: tree %s holds %d live keys, the history implies %d", where, n, len(t.live), len(live[n]))
			}
			for k, id := range live[n] {
				if t.live[k] != id {
					return fmt.Sprintf("%s: tree %s live key %d is %d, expected %d", where, n, k, t.live[k], id)
				}
			}
			if t.height > maxHeight {
				maxHeight = t.height
			}
			if len(t.leaves) > leaves {
				leaves = len(t.leaves)
			}
			if len(t.leaves) > splitsBefore[n] {
				if splitsBefore[n] >= 2 && reloaded[n] {
					reloadBetweenSplits = true
				}
				splitsBefore[n] = len(t.leaves)
				reloaded[n] = false
			}
		}
	}
	b, _ := json.Marshal(c)
	labels := []string{fmt.Sprintf("max-height-%d", maxHeight)}
	if reloadBetweenSplits {
		labels = append(labels, "reload-between-splits")
	}
	st.Record(b, maxHeight >= 2 && leaves >= 3 && reloadBetweenSplits, labels...)
	return ""
}

// c11Big drives BTree.insert directly: n ascending keys into one tree, with
// the walker run periodically and at the end. On the in-memory store this
// reaches 4 levels in a fraction of a second.
func c11Big(st *vlib.Stats, n int, onFile bool) string {
	var s store
	var fs *fileStore
	if onFile {
		os.Remove("c11big.tbl")
		f, err := newFileStore("c11big.tbl", false)
		if err != nil {
			return err.Error()
		}
		defer os.Remove("c11big.tbl")
		defer f.file.Close()
		f.nextFreeOffset = pageSize
		fs, s = f, f
	} else {
		s = &memoryStore{}
	}
	root := &btreeNode{isLeaf: true}
	if err := s.append(root); err != nil {
		return err.Error()
	}
	if fs != nil {
		root.markDirty(0)
	}
	bt := &BTree{store: s}
	bt.setRoot(root)
	check := func(when string) string {
		w := &c11Walker{st: s, visited: map[uint64]string{}}
		t, msg := w.walkTree("big", bt.rootOffset)
		if msg != "" {
			return when + ": " + msg
		}
		if msg := c11Lookup(s, t, 4000); msg != "" {
			return when + ": " + msg
		}
		if len(t.keys) == 0 {
			return ""
		}
		st.Label(fmt.Sprintf("big-tree-height-%d", t.height), 1)
		return ""
	}
	val := []byte{1, 2, 3, 4}
	next := 1
	// after an insertion that allocated more than one page (an internal node was split, or the root
	// moved) the next few insertions are each followed by a check - on a file: by a flush, a cold
	// cache and a check -, because what such a split forgot to write out shows only while the
	// pages concerned are not rewritten by the next split below them
	closeLooks, closeLooksDone := 0, 0
	for i := 0; i < n; i++ {
		var before uint64
		if fs != nil {
			before = fs.nextFreeOffset
		}
		if _, _, err := bt.insert(val); err != nil {
			return fmt.Sprintf("insert %d failed: %v", i, err)
		}
		if fs != nil && fs.nextFreeOffset-before >= 2*pageSize && closeLooksDone < 400 {
			closeLooks = 6
		}
		if i+1 == next || closeLooks > 0 {
			if closeLooks > 0 {
				closeLooks--
				closeLooksDone++
				st.Label("big-tree-reload-right-after-internal-split", 1)
				if err := fs.flushPages(); err != nil {
					return err.Error()
				}
				fs.cache = NewLRU(10000)
			}
			if msg := check(fmt.Sprintf("after %d inserts", i+1)); msg != "" {
				return msg
			}
			if i+1 == next {
				switch {
				case next < 64:
					next++
				case next < 4000:
					next += 97
				default:
					next += n / 6
				}
			}
			if fs != nil {
				if err := fs.flushPages(); err != nil {
					return err.Error()
				}
				fs.cache = NewLRU(10000)
			}
		}
	}
	st.AddExtra(fmt.Sprintf("big_tree_keys_%s", map[bool]string{true: "file", false: "memory"}[onFile]), n)
	return check(fmt.Sprintf("after all %d inserts", n))
}

func TestVerifC11(t *testing.T) {
	cfg := vlib.GetConfig()
	st := vlib.NewStats("C11")
	defer st.Write(cfg, "C11")
	if cfg.Replay == "" {
		var msg string
		var bc c11Case
		switch {
		case cfg.Shard == 0:
			bc = c11Case{Big: 200000}
		case cfg.Shard == 1:
			bc = c11Case{Big: 3000, BigFile: true}
		case cfg.Shard == 2 && cfg.Tier == "thorough":
			bc = c11Case{Big: 200000, BigFile: true}
		case cfg.Shard == 3:
			// 1400 logged rows in one table (two internal levels), start-up recovery replays
			// the whole log over the flushed tree: reopen, more rows, crash, more rows, reopen
			bc = c11Case{Ops: []c11Op{{Op: "create", Table: 0}, {Op: "create", Table: 1}}}
			for i := 0; i < 35; i++ {
				bc.Ops = append(bc.Ops, c11Op{Op: "insert", Table: 0, N: 40, Size: 1})
				if i%9 == 8 {
					bc.Ops = append(bc.Ops, c11Op{Op: "flush"}, c11Op{Op: "insert", Table: 1, N: 3, Size: 10})
				}
			}
			bc.Ops = append(bc.Ops, c11Op{Op: "reopen"}, c11Op{Op: "insert", Table: 0, N: 12, Size: 1}, c11Op{Op: "reopen"},
				c11Op{Op: "delete", Table: 0, Pick: 700}, c11Op{Op: "insert", Table: 0, N: 40, Size: 1}, c11Op{Op: "crash"},
				c11Op{Op: "insert", Table: 0, N: 9, Size: 1}, c11Op{Op: "reopen"}, c11Op{Op: "update", Table: 0, Pick: 1300, Size: 10})
		}
		if len(bc.Ops) > 0 {
			if msg := c11Run(bc, st); msg != "" {
				b, _ := json.Marshal(bc)
				st.Fail("fixed large-tree history: "+msg, b)
				vlib.Logf("FAIL C11 (large tree history): %s", msg)
				return
			}
		}
		if bc.Big > 0 {
			msg = c11Big(st, bc.Big, bc.BigFile)
		}
		if msg != "" {
			b, _ := json.Marshal(bc)
			st.Fail("direct BTree.insert driver: "+msg, b)
			vlib.Logf("FAIL C11 (big tree): %s", msg)
			return
		}
	}
	vlib.DriveWith(t, vlib.Prop[c11Case]{ID: "C11", Gen: c11Gen, Run: c11Run}, cfg, st)
}
