package storage

// C15, second part: the cache as the file store uses it. Random page fetches,
// dirty transitions and flushes on a real store with a small cache; after every
// step the store and its cache must agree: a page handed out is the page the
// cache holds for that offset, every page is cached under one key only, a
// fetch is refused only when the cache is full of dirty pages, and capacity is
// never exceeded.

import (
	"container/list"
	"encoding/json"
	"errors"
	"fmt"
	"os"

	"pgregory.net/rapid"

	"verif/vlib"
)

type c15StoreOp struct {
	Op   string `json:"op"` // fetch | dirty | flush | root | failflush (a flush while the file refuses every write)
	Page int    `json:"p,omitempty"`
}

type c15StoreCase struct {
	StoreCap int          `json:"store_cap"`
	Tables   int          `json:"tables"`
	Rows     int          `json:"rows"`
	StoreOps []c15StoreOp `json:"store_ops"`
}

func c15StoreGen(t *rapid.T) c15StoreCase {
	c := c15StoreCase{StoreCap: rapid.IntRange(4, 24).Draw(t, "cap"), Tables: rapid.IntRange(1, 8).Draw(t, "tables"), Rows: rapid.SampledFrom([]int{10, 40, 90, 200}).Draw(t, "rows")}
	for n := rapid.IntRange(20, 300).Draw(t, "nops"); n > 0; n-- {
		op := c15StoreOp{Op: rapid.SampledFrom([]string{"fetch", "fetch", "fetch", "fetch", "fetch", "fetch", "dirty", "dirty", "dirty", "dirty", "flush", "flush", "root", "root", "failflush", "otherflush"}).Draw(t, "op"), Page: rapid.IntRange(0, 400).Draw(t, "page")}
		c.StoreOps = append(c.StoreOps, op)
	}
	return c
}

func c15StoreRun(c c15StoreCase, st *vlib.Stats) string {
	VerifNoTimer = true
	os.RemoveAll(dataPath)
	defer os.RemoveAll(dataPath)
	const db = "c15db"
	if err := CreateDB(db); err != nil {
		return "CreateDB failed: " + err.Error()
	}
	rs, err := OpenRelation(db, true)
	if err != nil {
		return "OpenRelation failed: " + err.Error()
	}
	defer rs.VerifAbandon()
	rel := &Relation{Fields: []FieldDef{{Name: "a", DataType: TypeInt}, {Name: "s", DataType: TypeVarchar, Len: 100}}}
	for ti := 0; ti < c.Tables; ti++ {
		name := fmt.Sprintf("t%d", ti)
		if err := rs.CreateTable(rel, name); err != nil {
			return "CreateTable failed: " + err.Error()
		}
		var batch WALBatch
		for i := 0; i < c.Rows/c.Tables+1; i++ {
			w, err := rs.Insert(name, nil, []interface{}{int64(i), "payload"})
			if err != nil {
				return "Insert failed: " + err.Error()
			}
			batch = append(batch, w...)
		}
		if err := rs.FlushWALBatch(batch); err != nil {
			return "log append failed: " + err.Error()
		}
	}
	fs := rs.fs
	if err := fs.flushPages(); err != nil {
		return "flush failed: " + err.Error()
	}
	npages := int(fs.nextFreeOffset / pageSize)
	if npages < 3 {
		return ""
	}
	fs.cache = NewLRU(c.StoreCap)    // everything is on disk: start from a cold, small cache
	held := map[uint64]*btreeNode{}  // pages handed out and still dirty (a statement would hold them)
	lastStamp := map[uint64]uint64{} // the LSN of the last change of every page changed here: what the file must show in the end
	failedFlushes := 0
	lsn := uint64(1 << 40)
	entryFor := func(off uint64) (*list.Element, bool) {
		for k, el := range fs.cache.cache {
			if fmt.Sprint(k) == fmt.Sprint(off) {
				return el, true
			}
		}
		return nil, false
	}
	invariants := func(where string) string {
		if n := len(fs.cache.cache); n > c.StoreCap || fs.cache.list.Len() != n {
			return fmt.Sprintf("%s: cache holds %d entries (list %d), capacity %d", where, n, fs.cache.list.Len(), c.StoreCap)
		}
		seen := map[uint64]any{}
		for k, el := range fs.cache.cache {
			ce := el.Value.(*cacheEntry)
			off := ce.val.getFileOffset()
			if prev, dup := seen[off]; dup {
				return fmt.Sprintf("%s: page %d is cached twice (under keys %T(%v) and %T(%v))", where, off, prev, prev, k, k)
			}
			seen[off] = k
			// (whatever type the keys have, a key must be its page's offset)
			if fmt.Sprint(k) != fmt.Sprint(off) {
				return fmt.Sprintf("%s: page %d is cached under the key %T(%v)", where, off, k, k)
			}
		}
		for off, n := range held {
			if !n.isDirty() {
				continue
			}
			got, ok := entryFor(off)
			if !ok || got.Value.(*cacheEntry).val != n {
				return fmt.Sprintf("%s: the dirty page %d that was handed out is no longer the page the cache holds for that offset (its changes can not be flushed)", where, off)
			}
		}
		return ""
	}
	fetches, refusals, evictions := 0, 0, 0
	var other *RelationService // a second database open in the same process
	defer func() {
		if other != nil {
			other.VerifAbandon()
		}
	}()
	for i, op := range c.StoreOps {
		where := fmt.Sprintf("step %d (%s)", i, op.Op)
		off := uint64(1+op.Page%(npages-1)) * pageSize
		if op.Op == "root" {
			off = fs.pageTableRoot
		}
		switch op.Op {
		case "fetch", "root", "dirty":
			allDirty := len(fs.cache.cache) == c.StoreCap
			for _, el := range fs.cache.cache {
				if !el.Value.(*cacheEntry).val.isDirty() {
					allDirty = false
				}
			}
			_, resident := entryFor(off)
			before := len(fs.cache.cache)
			var n *btreeNode
			var err error
			func() {
				defer func() {
					if r := recover(); r != nil {
						err = fmt.Errorf("panic: %v", r)
					}
				}()
				n, err = fs.fetch(off)
			}()
			fetches++
			if err != nil {
				if errors.Is(err, ErrLRUCacheFull) && allDirty && !resident {
					refusals++
					break // the documented refusal
				}
				return fmt.Sprintf("%s: fetch of page %d failed: %v (cache %d/%d, all dirty: %v, resident: %v)", where, off, err, before, c.StoreCap, allDirty, resident)
			}
			if n == nil || n.getFileOffset() != off {
				return fmt.Sprintf("%s: fetch of page %d returned another page", where, off)
			}
			el, ok := entryFor(off)
			if !ok || el.Value.(*cacheEntry).val != n {
				return fmt.Sprintf("%s: fetch handed out page %d but the cache does not hold that page object for the offset (cache %d/%d, all dirty before: %v)", where, off, len(fs.cache.cache), c.StoreCap, allDirty)
			}
			if !resident && before == c.StoreCap {
				evictions++
			}
			if op.Op == "dirty" {
				lsn++
				n.markDirty(lsn)
				held[off] = n
				lastStamp[off] = lsn
			}
		case "otherflush":
			// another database of the same process is created (first time) / flushed: its cache is its own,
			// nothing about this store's pages may change
			if other == nil {
				if err := CreateDB("c15other"); err != nil {
					return where + ": CreateDB of a second database failed: " + err.Error()
				}
				o, err := OpenRelation("c15other", true)
				if err != nil {
					return where + ": OpenRelation of a second database failed: " + err.Error()
				}
				other = o
			}
			if err := other.fs.flushPages(); err != nil {
				return where + ": flush of the second database failed: " + err.Error()
			}
			for off, n := range held {
				if lastStamp[off] != 0 && n.lastLSN == lastStamp[off] && !n.isDirty() {
					return fmt.Sprintf("%s: page %d of this database lost its dirty flag when ANOTHER database was flushed", where, off)
				}
			}
		case "failflush":
			// the data file refuses writes for the duration of one flush (a full disk, an I/O
			// error): whatever the flush reports, a page that could not be written is still unsaved -
			// it has to stay dirty, hence in the cache, until a later flush does write it
			ro, err := os.Open(fs.file.Name())
			if err != nil {
				return where + ": cannot open the data file read-only: " + err.Error()
			}
			wasDirty := map[uint64]bool{}
			for off, n := range held {
				wasDirty[off] = n.isDirty()
			}
			rw := fs.file
			fs.file = ro
			ferr := fs.flushPages()
			fs.file = rw
			ro.Close()
			failedFlushes++
			for off, n := range held {
				if wasDirty[off] && !n.isDirty() {
					return fmt.Sprintf("%s: the flush could not write page %d (the file refused every write; flush returned: %v), yet the page is flagged clean: it can be evicted now and no later flush will write it", where, off, ferr)
				}
			}
		case "flush":
			if err := fs.flushPages(); err != nil {
				return fmt.Sprintf("%s: flush failed: %v (cache %d/%d)", where, err, len(fs.cache.cache), c.StoreCap)
			}
			for off, n := range held {
				if n.isDirty() {
					return fmt.Sprintf("%s: page %d is still dirty after a flush", where, off)
				}
			}
			held = map[uint64]*btreeNode{}
		}
		if msg := invariants(where); msg != "" {
			return msg
		}
	}
	// in the end everything is flushed and read back from the file alone: every page changed above
	// carries the stamp of its last change
	if err := fs.flushPages(); err != nil {
		return "closing flush failed: " + err.Error()
	}
	fs.cache = NewLRU(len(lastStamp) + 8)
	for off, want := range lastStamp {
		n, err := fs.fetch(off)
		if err != nil {
			return fmt.Sprintf("reading page %d back after the closing flush failed: %v", off, err)
		}
		if n.lastLSN != want {
			return fmt.Sprintf("page %d was last changed with stamp %d, but after the closing flush the file holds the version stamped %d: an unsaved page was dropped from the cache", off, want, n.lastLSN)
		}
	}
	b, _ := json.Marshal(c)
	st.Record(b, evictions > 0 && refusals > 0, "store-level", fmt.Sprintf("store-refusals-%v", refusals > 0), fmt.Sprintf("store-failed-flushes-%v", failedFlushes > 0))
	return ""
}
