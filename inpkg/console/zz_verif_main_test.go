package main

import (
	"os"
	"testing"

	"verif/vlib"
)

// TestMain of the injected verification tests: private working directory
// (dataPath is the relative path "data"), silence the chatty storage layer.
func TestMain(m *testing.M) {
	if os.Getenv("VERIF_CONSOLE_CHILD") == "1" {
		// child mode of the process-level part of C20: be the console program
		main()
		os.Exit(0)
	}
	cfg := vlib.GetConfig()
	dir := cfg.OutDir
	if dir == "" {
		d, err := os.MkdirTemp("", "verif-console-")
		if err != nil {
			panic(err)
		}
		dir = d
		defer os.RemoveAll(d)
	}
	work := dir + "/work"
	os.MkdirAll(work, 0755)
	if err := os.Chdir(work); err != nil {
		panic(err)
	}
	vlib.Silence()
	code := m.Run()
	vlib.Unsilence()
	os.Exit(code)
}
