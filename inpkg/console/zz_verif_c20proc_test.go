package main

// C20, second half: the console PROGRAM (main's loop, not only the terminal)
// hands every typed statement to the engine. The program is this test binary
// re-invoked in child mode (TestMain calls main()), attached to a pseudo
// terminal; the parent types lines and afterwards opens the database the child
// left behind.

import (
	"bytes"
	"encoding/json"
	"fmt"
	"os"
	"os/exec"
	"path/filepath"
	"strings"
	"sync"
	"syscall"
	"time"
	"unsafe"

	"github.com/mk6i/mkdb/engine"
	"github.com/mk6i/mkdb/storage"
	"pgregory.net/rapid"

	"verif/vlib"
)

type c20ProcStmt struct {
	SQL   string `json:"sql"`
	Value int64  `json:"value,omitempty"` // valid INSERT: the value it adds
	Valid bool   `json:"valid"`
}

type c20ProcCase struct {
	ProcLines [][]c20ProcStmt `json:"proc_lines"` // statements typed per line (one Enter per line)
}

func c20ProcGen(t *rapid.T) c20ProcCase {
	var c c20ProcCase
	next := int64(1)
	for n := rapid.IntRange(2, 5).Draw(t, "nlines"); n > 0; n-- {
		var line []c20ProcStmt
		for k := rapid.IntRange(1, 4).Draw(t, "nstmts"); k > 0; k-- {
			switch rapid.IntRange(0, 7).Draw(t, "kind") {
			case 0:
				line = append(line, c20ProcStmt{SQL: "CREATE TABLE t (a INT);"}) // exists already
			case 1:
				line = append(line, c20ProcStmt{SQL: "INSERT INTO nosuch VALUES (1);"})
			case 2:
				line = append(line, c20ProcStmt{SQL: "INSERT INTO t VALUES ('x');"})
			case 3:
				line = append(line, c20ProcStmt{SQL: "SELEC 1;"})
			default:
				line = append(line, c20ProcStmt{SQL: fmt.Sprintf("INSERT INTO t VALUES (%d);", next), Value: next, Valid: true})
				next++
			}
		}
		c.ProcLines = append(c.ProcLines, line)
	}
	return c
}

func c20OpenPty() (master *os.File, slavePath string, err error) {
	master, err = os.OpenFile("/dev/ptmx", os.O_RDWR|syscall.O_NOCTTY, 0)
	if err != nil {
		return nil, "", err
	}
	var unlock int32
	if _, _, e := syscall.Syscall(syscall.SYS_IOCTL, master.Fd(), syscall.TIOCSPTLCK, uintptr(unsafe.Pointer(&unlock))); e != 0 {
		master.Close()
		return nil, "", e
	}
	var n uint32
	if _, _, e := syscall.Syscall(syscall.SYS_IOCTL, master.Fd(), syscall.TIOCGPTN, uintptr(unsafe.Pointer(&n))); e != 0 {
		master.Close()
		return nil, "", e
	}
	return master, fmt.Sprintf("/dev/pts/%d", n), nil
}

var c20ProcSeq int

func c20ProcRun(c c20ProcCase, st *vlib.Stats) string {
	b, _ := json.Marshal(c)
	master, slavePath, err := c20OpenPty()
	if err != nil {
		st.Label("pty-unavailable", 1)
		return ""
	}
	defer master.Close()
	slave, err := os.OpenFile(slavePath, os.O_RDWR|syscall.O_NOCTTY, 0)
	if err != nil {
		st.Label("pty-unavailable", 1)
		return ""
	}
	cwd, _ := os.Getwd()
	c20ProcSeq++
	dir := filepath.Join(cwd, fmt.Sprintf("proc-%d", c20ProcSeq))
	os.RemoveAll(dir)
	os.MkdirAll(dir, 0755)
	defer os.RemoveAll(dir)
	cmd := exec.Command(os.Args[0], "-test.run", "^$")
	cmd.Dir = dir
	cmd.Env = append(os.Environ(), "VERIF_CONSOLE_CHILD=1", "VERIF_OUT=", "VERIF_REPLAY=")
	cmd.Stdin, cmd.Stdout, cmd.Stderr = slave, slave, slave
	cmd.SysProcAttr = &syscall.SysProcAttr{Setsid: true, Setctty: true, Ctty: 0}
	if err := cmd.Start(); err != nil {
		slave.Close()
		st.Label("pty-unavailable", 1)
		return ""
	}
	slave.Close()
	var out bytes.Buffer
	var outMu sync.Mutex
	printed := func() string {
		outMu.Lock()
		defer outMu.Unlock()
		return out.String()
	}
	go func() { // drain what the console prints, or it blocks
		buf := make([]byte, 4096)
		for {
			n, err := master.Read(buf)
			if n > 0 {
				outMu.Lock()
				if out.Len() < 1<<20 {
					out.Write(buf[:n])
				}
				outMu.Unlock()
			}
			if err != nil {
				return
			}
		}
	}()
	done := make(chan error, 1)
	go func() { done <- cmd.Wait() }()
	typeLine := func(s string) {
		master.Write([]byte(s + "\r"))
		time.Sleep(5 * time.Millisecond)
	}
	waitFor := func(path string) bool {
		for i := 0; i < 2000; i++ {
			if _, err := os.Stat(path); err == nil {
				return true
			}
			select {
			case <-done:
				done <- nil
				_, err := os.Stat(path)
				return err == nil
			default:
			}
			time.Sleep(5 * time.Millisecond)
		}
		return false
	}
	kill := func() {
		cmd.Process.Kill()
		select {
		case <-done:
		case <-time.After(5 * time.Second):
		}
	}
	// wait for the prompt: what is typed before the console switched the terminal to raw
	// mode goes through the line discipline (Enter would arrive as a line feed)
	for i := 0; i < 2000 && !strings.Contains(printed(), " > "); i++ {
		time.Sleep(5 * time.Millisecond)
	}
	time.Sleep(20 * time.Millisecond)
	typeLine("CREATE DATABASE d;")
	if !waitFor(filepath.Join(dir, "data", "d")) {
		kill()
		st.Label("console-child-did-not-start", 1)
		if os.Getenv("VERIF_C20_DEBUG") != "" {
			return fmt.Sprintf("debug: child did not start; printed: %q", tail(printed(), 600))
		}
		return ""
	}
	typeLine("USE d; CREATE TABLE t (a INT);")
	var want []int64
	for _, line := range c.ProcLines {
		var parts []string
		for _, s := range line {
			parts = append(parts, s.SQL)
			if s.Valid {
				want = append(want, s.Value)
			}
		}
		typeLine(strings.Join(parts, " "))
	}
	// a sentinel the parent can see in the file system, then end of input
	typeLine("CREATE DATABASE zz_done;")
	finished := waitFor(filepath.Join(dir, "data", "zz_done"))
	master.Write([]byte{4})
	select {
	case <-done:
	case <-time.After(10 * time.Second):
		kill()
	}
	if !finished {
		return fmt.Sprintf("the console did not get through the typed lines within 10 s (the last line creates a database that never appeared)\n  typed: %s\n  printed (tail): %q", b, tail(printed(), 400))
	}
	// what did the engine get? open the database the console left behind
	if err := os.Chdir(dir); err != nil {
		return "chdir failed: " + err.Error()
	}
	defer os.Chdir(cwd)
	if err := storage.InitStorage(); err != nil {
		return "the database the console left behind does not start: " + err.Error()
	}
	sess := &engine.Session{}
	if err := sess.ExecQuery("USE d"); err != nil {
		return "USE d failed on the database the console left behind: " + err.Error()
	}
	defer sess.RelationService.VerifAbandon()
	rows, _, err := sess.RelationService.Fetch("t")
	if err != nil {
		return "reading table t failed: " + err.Error()
	}
	var got []int64
	for _, r := range rows {
		v, _ := r.Vals[0].(int64)
		got = append(got, v)
	}
	if fmt.Sprint(got) != fmt.Sprint(want) {
		return fmt.Sprintf("the engine executed the INSERTs of %v, the valid INSERTs typed were %v (each statement once, in order - also those after a statement that fails)\n  typed lines: %s", got, want, b)
	}
	failedBeforeValid := false
	for _, line := range c.ProcLines {
		sawFail := false
		for _, s := range line {
			if !s.Valid {
				sawFail = true
			} else if sawFail {
				failedBeforeValid = true
			}
		}
	}
	labels := []string{"console-process-on-pty"}
	if failedBeforeValid {
		labels = append(labels, "valid-statement-after-failing-one-on-a-line")
	}
	st.Record(b, failedBeforeValid, labels...)
	return ""
}

func tail(s string, n int) string {
	if len(s) > n {
		return s[len(s)-n:]
	}
	return s
}
