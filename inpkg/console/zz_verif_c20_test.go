package main

// C20 - the console submits exactly the statements that were typed.

import (
	"bytes"
	"encoding/json"
	"fmt"
	"io"
	"strings"
	"testing"
	"time"
	"unicode/utf8"

	"pgregory.net/rapid"
	"verif/vlib"
)

type c20Case struct {
	Stmts  [][]string `json:"stmts"`   // each statement: tokens, the last one is ";"
	Breaks [][]string `json:"breaks"`  // Breaks[i][j]: what is typed after token j of statement i ("", " ", line break forms)
	Chunks []int      `json:"chunks"`  // sizes of successive Read results (cycled); 0 = all that is left
	Paste  bool       `json:"paste"`   // bracketed-paste markers around the first PasteN statements
	PasteN int        `json:"paste_n"` // 0 = around the whole input
}

type c20Reader struct {
	data   []byte
	chunks []int
	i      int
}

func (r *c20Reader) Read(p []byte) (int, error) {
	if len(r.data) == 0 {
		return 0, io.EOF
	}
	n := len(r.data)
	if len(r.chunks) > 0 {
		if c := r.chunks[r.i%len(r.chunks)]; c > 0 && c < n {
			n = c
		}
		r.i++
	}
	if n > len(p) {
		n = len(p)
	}
	copy(p, r.data[:n])
	r.data = r.data[n:]
	return n, nil
}

// c20Normalise collapses white space outside quoted text and keeps quoted
// text byte for byte.
func c20Normalise(s string) string {
	var sb strings.Builder
	var quote rune
	space := false
	escaped := false
	for _, r := range s {
		if quote != 0 {
			sb.WriteRune(r)
			switch {
			case escaped: // the character after a backslash belongs to the literal, whatever it is
				escaped = false
			case r == '\\':
				escaped = true
			case r == quote:
				quote = 0
			}
			continue
		}
		if r == ' ' || r == '\n' || r == '\t' || r == '\r' {
			space = true
			continue
		}
		if space && sb.Len() > 0 {
			sb.WriteByte(' ')
		}
		space = false
		sb.WriteRune(r)
		if r == '\'' || r == '"' {
			quote = r
		}
	}
	return sb.String()
}

var c20Words = []string{"SELECT", "select", "*", "FROM", "t0", "a", "b", "INSERT", "INTO", "VALUES", "(", ")", ",", "=", "1", "42", "WHERE", "x.y", "<=", "UPDATE", "SET", "name"}

func c20Literal(t *rapid.T) string {
	q := rapid.SampledFrom([]string{"'", "'", "\""}).Draw(t, "q")
	other := "\""
	if q == "\"" {
		other = "'"
	}
	n := rapid.IntRange(0, 6).Draw(t, "nparts")
	var sb strings.Builder
	sb.WriteString(q)
	for i := 0; i < n; i++ {
		// "\r" is Enter pressed inside the literal: the console turns it into a space
		sb.WriteString(rapid.SampledFrom([]string{";", ";", " ", "a", "b;c", other, other + ";", "  ", "x y", "é", "日本", ";;", "SELECT", ",", "(", "--", "/*", "\r", ";\r", "\r;",
			// characters that are not "graphic": joiners, soft hyphen, byte-order mark, private use, a 4-byte emoji sequence
			"\u200d", "a\u200cb", "co\u00adop", "\ufeff", "\ue000", "👩\u200d👩", "\u00a0", "\u2028", "\U000e0041",
			// escapes: a backslash takes the next character with it (an escaped backslash, an escaped quote)
			"\\\\", "C:\\\\logs\\\\", "\\" + q, "\\" + q + ";", "\\n"}).Draw(t, "part"))
	}
	sb.WriteString(q)
	return sb.String()
}

func c20Gen(t *rapid.T) c20Case {
	var c c20Case
	ns := rapid.IntRange(1, 6).Draw(t, "nstmts")
	style := rapid.SampledFrom([]string{"oneline", "multiline", "mixed", "mixed"}).Draw(t, "style")
	for i := 0; i < ns; i++ {
		nt := rapid.IntRange(1, 10).Draw(t, "ntok")
		var toks []string
		for j := 0; j < nt; j++ {
			if rapid.IntRange(0, 3).Draw(t, "lit") == 0 {
				toks = append(toks, c20Literal(t))
			} else {
				toks = append(toks, rapid.SampledFrom(c20Words).Draw(t, "word"))
			}
		}
		toks = append(toks, ";")
		var br []string
		for j := range toks {
			last := j == len(toks)-1
			var choices []string
			switch {
			case last && style == "oneline" && i < ns-1:
				choices = []string{" ", "", "  "}
			case last:
				choices = []string{"\r", "\n\r", "\r\n", " \r", "\r\r", "\r \r", " ", ""}
				if i == ns-1 {
					choices = []string{"\r", "\n\r", "\r\n", " \r"}
				}
			case style == "oneline":
				choices = []string{" ", " ", "  "}
			case j == len(toks)-2:
				choices = []string{" ", "", "\r", " \r"} // before the semicolon
			default:
				choices = []string{" ", " ", " ", "\r", "\n\r", " \r", "\r\n", "  "}
			}
			br = append(br, rapid.SampledFrom(choices).Draw(t, "break"))
		}
		c.Stmts = append(c.Stmts, toks)
		c.Breaks = append(c.Breaks, br)
	}
	switch rapid.IntRange(0, 3).Draw(t, "chunking") {
	case 0:
		c.Chunks = []int{1} // typed
	case 1:
		c.Chunks = []int{0} // pasted in one piece
	default:
		c.Chunks = rapid.SliceOfN(rapid.IntRange(1, 40), 1, 6).Draw(t, "chunks")
	}
	c.Paste = rapid.IntRange(0, 5).Draw(t, "paste") == 0
	if c.Paste && ns > 1 {
		c.PasteN = rapid.IntRange(0, ns-1).Draw(t, "paste_n")
	}
	return c
}

func c20Input(c c20Case) (string, []string) {
	var sb strings.Builder
	var want []string
	for i, toks := range c.Stmts {
		if c.Paste && c.PasteN > 0 && i == c.PasteN {
			// the paste ends after a complete line: make sure the previous statement was entered
			if !strings.HasSuffix(strings.TrimRight(sb.String(), " \n"), "\r") {
				sb.WriteString("\r")
			}
			sb.WriteString("\x1b[201~")
		}
		var st strings.Builder
		for j, tok := range toks {
			sb.WriteString(tok)
			st.WriteString(strings.ReplaceAll(tok, "\r", " "))
			br := ""
			if i < len(c.Breaks) && j < len(c.Breaks[i]) {
				br = c.Breaks[i][j]
			}
			// two word tokens must stay apart
			if br == "" && j < len(toks)-2 {
				br = " "
			}
			sb.WriteString(br)
			if j < len(toks)-1 {
				st.WriteString(br) // the console turns a line break into a space
			}
		}
		want = append(want, c20Normalise(st.String()))
	}
	s := sb.String()
	if !strings.HasSuffix(strings.TrimRight(s, " \n"), "\r") {
		s += "\r"
	}
	return s, want
}

func c20Run(c c20Case, st *vlib.Stats) string {
	input, want := c20Input(c)
	raw := input
	if c.Paste {
		raw = "\x1b[200~" + input
		if c.PasteN == 0 || c.PasteN >= len(c.Stmts) {
			raw += "\x1b[201~"
		}
	}
	rd := &c20Reader{data: []byte(raw), chunks: c.Chunks}
	term := NewTerminal(struct {
		io.Reader
		io.Writer
	}{rd, io.Discard}, "")
	var got []string
	var perr string
	func() {
		defer func() {
			if r := recover(); r != nil {
				perr = fmt.Sprintf("panic: %v", r)
			}
		}()
		for calls := 0; calls < 10000; calls++ {
			lines, err := term.ReadLine()
			for _, l := range lines {
				got = append(got, c20Normalise(l))
			}
			if err != nil && err != ErrPasteIndicator {
				break
			}
		}
	}()
	if perr != "" {
		return fmt.Sprintf("%s\n  input: %q", perr, raw)
	}
	hasSemiLit, spansOrShares := false, false
	for i, toks := range c.Stmts {
		for j, tok := range toks {
			if (tok[0] == '\'' || tok[0] == '"') && strings.Contains(tok, ";") {
				hasSemiLit = true
			}
			if j < len(toks)-1 && strings.Contains(c.Breaks[i][j], "\r") {
				spansOrShares = true
			}
		}
		if i < len(c.Stmts)-1 && !strings.Contains(c.Breaks[i][len(toks)-1], "\r") {
			spansOrShares = true
		}
	}
	b, _ := json.Marshal(c)
	labels := []string{}
	if c.Paste {
		labels = append(labels, "bracketed-paste")
	}
	if len(c.Chunks) == 1 && c.Chunks[0] == 1 {
		labels = append(labels, "typed-bytewise")
	}
	if hasSemiLit {
		labels = append(labels, "semicolon-in-literal")
	}
	st.Record(b, hasSemiLit && spansOrShares, labels...)
	if len(got) != len(want) {
		return fmt.Sprintf("%d statements were submitted, %d were entered\n  input: %q\n  entered:   %q\n  submitted: %q", len(got), len(want), raw, want, got)
	}
	for i := range want {
		if got[i] != want[i] {
			return fmt.Sprintf("statement %d was submitted as %q, entered as %q\n  input: %q", i, got[i], want[i], raw)
		}
	}
	if !utf8.ValidString(input) {
		return "harness: input is not valid UTF-8"
	}
	_ = bytes.MinRead
	return ""
}

func TestVerifC20(t *testing.T) {
	cfg := vlib.GetConfig()
	st := vlib.NewStats("C20")
	defer st.Write(cfg, "C20")
	procReplay, editReplay := false, false
	if cfg.Replay != "" {
		if raw, err := vlib.LoadReplay(cfg.Replay); err == nil {
			procReplay = bytes.Contains(raw, []byte(`"proc_lines"`))
			editReplay = bytes.Contains(raw, []byte(`"edit_keys"`))
		}
	}
	if !procReplay && !editReplay {
		vlib.DriveWith(t, vlib.Prop[c20Case]{ID: "C20", Gen: c20Gen, Run: c20Run}, cfg, st)
	}
	if st.Failed() || (cfg.Replay != "" && !procReplay && !editReplay) {
		return
	}
	// statements corrected while typing (cursor keys, insertions)
	if !procReplay {
		ecfg := cfg
		ecfg.Checks = cfg.Checks / 3
		vlib.DriveWith(t, vlib.Prop[c20EditCase]{ID: "C20", Gen: c20EditGen, Run: c20EditRun}, ecfg, st)
	}
	if st.Failed() || editReplay {
		return
	}
	// the console program itself, on a pseudo terminal: a few sessions per shard
	pcfg := cfg
	pcfg.Checks = cfg.Checks / 5000
	if pcfg.Checks < 3 {
		pcfg.Checks = 3
	}
	vlib.DriveWith(t, vlib.Prop[c20ProcCase]{ID: "C20", Gen: c20ProcGen, Run: c20ProcRun, Shrink: 5 * time.Second}, pcfg, st)
}
