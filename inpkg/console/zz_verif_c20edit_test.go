package main

// C20, third part: statements that were corrected while typing - the cursor
// moved back (also into an earlier line of an unfinished statement), characters
// inserted, cursor back to the end. What is submitted is what stands on the
// screen when Enter is pressed.

import (
	"encoding/json"
	"fmt"
	"io"
	"strings"

	"pgregory.net/rapid"
	"verif/vlib"
)

type c20Key struct {
	Text  string `json:"text,omitempty"`  // characters typed at the cursor
	Paste bool   `json:"paste,omitempty"` // Text arrives as a bracketed paste
	Left  int    `json:"left,omitempty"`  // cursor-left pressed this many times
	Home  bool   `json:"home,omitempty"`  // cursor to the start
	End   bool   `json:"end,omitempty"`   // cursor to the end
	Enter bool   `json:"enter,omitempty"` // Enter (always pressed with the cursor at the end)
	Ctl   bool   `json:"ctl,omitempty"`   // use the control-key form (^B ^A ^E) instead of the escape sequence
	Up    int    `json:"up,omitempty"`    // arrow-up pressed this many times (recall earlier statements)
	Down  int    `json:"down,omitempty"`  // arrow-down pressed this many times
}

type c20EditCase struct {
	EditKeys []c20Key `json:"edit_keys"`
	Chunks   []int    `json:"chunks"`
}

func c20EditGen(t *rapid.T) c20EditCase {
	var c c20EditCase
	typed := 0 // characters in the console's line buffer (a model only used to keep Left in range)
	add := func(k c20Key) { c.EditKeys = append(c.EditKeys, k) }
	ns := rapid.IntRange(1, 3).Draw(t, "nstmts")
	for i := 0; i < ns; i++ {
		nt := rapid.IntRange(2, 8).Draw(t, "ntok")
		for j := 0; j < nt; j++ {
			var tok string
			if rapid.IntRange(0, 3).Draw(t, "lit") == 0 {
				tok = strings.ReplaceAll(c20Literal(t), "\r", " ")
			} else {
				tok = rapid.SampledFrom(c20Words).Draw(t, "word")
			}
			add(c20Key{Text: tok})
			typed += len([]rune(tok))
			// a correction now and then
			if typed > 0 && rapid.IntRange(0, 3).Draw(t, "edit") == 0 {
				ctl := rapid.Bool().Draw(t, "ctl")
				if rapid.IntRange(0, 5).Draw(t, "home") == 0 {
					add(c20Key{Home: true, Ctl: ctl})
				} else {
					add(c20Key{Left: rapid.IntRange(1, typed).Draw(t, "left"), Ctl: ctl})
				}
				x := rapid.SampledFrom([]string{"a", "x", " ", "1", "é", ";", "'", "\"", "b;", "日", "\\", "hello", "a b c", "x;y", "'q'"}).Draw(t, "ins")
				add(c20Key{Text: x, Paste: rapid.IntRange(0, 3).Draw(t, "pasted") == 0})
				typed += len([]rune(x))
				add(c20Key{End: true, Ctl: rapid.Bool().Draw(t, "ctl2")})
			}
			if rapid.IntRange(0, 11).Draw(t, "peek") == 0 {
				// a look into the history in the middle of typing, and back down to the line being typed
				k := rapid.IntRange(1, 4).Draw(t, "peek_up")
				add(c20Key{Up: k})
				add(c20Key{Down: k})
			}
			switch rapid.IntRange(0, 4).Draw(t, "sep") {
			case 0: // the statement goes on on the next line
				add(c20Key{Enter: true})
				typed++ // (the line break becomes a space - unless the statement was complete, then the buffer empties; Left is clamped anyway)
			default:
				add(c20Key{Text: " "})
				typed++
			}
		}
		add(c20Key{Text: ";"})
		typed++
		if i == ns-1 || rapid.Bool().Draw(t, "enterafter") {
			add(c20Key{Enter: true})
			typed = 0
			// statements recalled from the history and submitted again, as they are or with something appended
			for rapid.IntRange(0, 2).Draw(t, "recall") == 0 {
				k := rapid.IntRange(1, 5).Draw(t, "recall_up")
				add(c20Key{Up: k})
				if rapid.IntRange(0, 2).Draw(t, "recall_back") == 0 {
					add(c20Key{Down: rapid.IntRange(1, k).Draw(t, "recall_down")})
				}
				if rapid.IntRange(0, 3).Draw(t, "recall_more") == 0 {
					add(c20Key{Text: rapid.SampledFrom([]string{" ", " x;", " select 'a;b' ;", ";"}).Draw(t, "recall_text")})
				}
				add(c20Key{Enter: true})
			}
		}
	}
	// close whatever a correction may have left open, so that most sessions end with a submission
	add(c20Key{Text: " ;"})
	add(c20Key{Enter: true})
	switch rapid.IntRange(0, 2).Draw(t, "chunking") {
	case 0:
		c.Chunks = []int{1}
	case 1:
		c.Chunks = []int{0}
	default:
		c.Chunks = rapid.SliceOfN(rapid.IntRange(1, 40), 1, 6).Draw(t, "chunks")
	}
	return c
}

// c20EditModel is the editor as the property's reader pictures it: a line with
// a cursor; Enter submits everything when the text after the last terminating
// semicolon is blank, otherwise the line break counts as a space and the
// statement goes on.
func c20EditModel(keys []c20Key) (raw string, want []string) {
	var buf []rune
	pos := 0
	var sb strings.Builder
	// the history: every statement submitted so far, most recent last; hIdx = how far back the line
	// shown is (-1: the line being typed, which is kept while the user looks around)
	var hist []string
	hIdx, pending := -1, ""
	for _, k := range keys {
		switch {
		case k.Up > 0:
			for i := 0; i < k.Up; i++ {
				sb.WriteString("\x1b[A")
				if hIdx+1 >= len(hist) || hIdx+1 >= 100 {
					continue
				}
				if hIdx == -1 {
					pending = string(buf)
				}
				hIdx++
				buf = []rune(hist[len(hist)-1-hIdx])
				pos = len(buf)
			}
		case k.Down > 0:
			for i := 0; i < k.Down; i++ {
				sb.WriteString("\x1b[B")
				switch {
				case hIdx == -1:
				case hIdx == 0:
					buf, hIdx = []rune(pending), -1
					pos = len(buf)
				default:
					hIdx--
					buf = []rune(hist[len(hist)-1-hIdx])
					pos = len(buf)
				}
			}
		case k.Text != "":
			if k.Paste {
				sb.WriteString("\x1b[200~" + k.Text + "\x1b[201~")
			} else {
				sb.WriteString(k.Text)
			}
			r := []rune(k.Text)
			buf = append(buf[:pos:pos], append(append([]rune{}, r...), buf[pos:]...)...)
			pos += len(r)
		case k.Left > 0:
			for i := 0; i < k.Left; i++ {
				if k.Ctl {
					sb.WriteString("\x02")
				} else {
					sb.WriteString("\x1b[D")
				}
				if pos > 0 {
					pos--
				}
			}
		case k.Home:
			if k.Ctl {
				sb.WriteString("\x01")
			} else {
				sb.WriteString("\x1b[H")
			}
			pos = 0
		case k.End:
			if k.Ctl {
				sb.WriteString("\x05")
			} else {
				sb.WriteString("\x1b[F")
			}
			pos = len(buf)
		case k.Enter:
			sb.WriteString("\r")
			// statements end at semicolons outside quoted text (a backslash inside quoted text
			// takes the next character with it)
			var ends []int
			var quote rune
			for i := 0; i < len(buf); i++ {
				ch := buf[i]
				switch {
				case quote != 0 && ch == '\\':
					i++
				case quote != 0 && ch == quote:
					quote = 0
				case quote == 0 && (ch == '\'' || ch == '"'):
					quote = ch
				case quote == 0 && ch == ';':
					ends = append(ends, i)
				}
			}
			rest := buf
			if len(ends) > 0 {
				rest = buf[ends[len(ends)-1]+1:]
			}
			if strings.TrimSpace(string(rest)) == "" {
				begin := 0
				for _, e := range ends {
					piece := strings.TrimSpace(string(buf[begin : e+1]))
					want = append(want, c20Normalise(piece))
					hist = append(hist, piece)
					begin = e + 1
				}
				buf, pos, hIdx = nil, 0, -1
			} else {
				buf = append(buf[:pos:pos], append([]rune{' '}, buf[pos:]...)...)
				pos++
			}
		}
	}
	return sb.String(), want
}

func c20EditRun(c c20EditCase, st *vlib.Stats) string {
	raw, want := c20EditModel(c.EditKeys)
	rd := &c20Reader{data: []byte(raw), chunks: c.Chunks}
	term := NewTerminal(struct {
		io.Reader
		io.Writer
	}{rd, io.Discard}, "")
	var got []string
	var perr string
	func() {
		defer func() {
			if r := recover(); r != nil {
				perr = fmt.Sprintf("panic: %v", r)
			}
		}()
		for calls := 0; calls < 10000; calls++ {
			lines, err := term.ReadLine()
			for _, l := range lines {
				got = append(got, c20Normalise(l))
			}
			if err != nil && err != ErrPasteIndicator {
				break
			}
		}
	}()
	if perr != "" {
		return fmt.Sprintf("%s\n  keys: %q", perr, raw)
	}
	b, _ := json.Marshal(c)
	edits, multiline := 0, false
	recalls := 0
	for _, k := range c.EditKeys {
		if k.Up > 0 {
			recalls++
		}
	}
	if recalls > 0 {
		st.Label("history-recall", 1)
	}
	for i, k := range c.EditKeys {
		if k.Left > 0 || k.Home {
			edits++
		}
		if k.Enter && i < len(c.EditKeys)-1 {
			multiline = true
		}
	}
	st.Record(b, edits > 0 && multiline && len(want) > 0, "edited-while-typing")
	if len(got) != len(want) {
		return fmt.Sprintf("%d statements were submitted, %d stood on the screen when Enter was pressed\n  keys: %q\n  expected:  %q\n  submitted: %q", len(got), len(want), raw, want, got)
	}
	for i := range want {
		if got[i] != want[i] {
			return fmt.Sprintf("statement %d was submitted as %q, on the screen stood %q\n  keys: %q", i, got[i], want[i], raw)
		}
	}
	return ""
}
