#!/usr/bin/env python3
"""Driver for the mkdb property checks.

  ./check <ID> quick|thorough        run the check, write evidence/<ID>.json
  ./check <ID> --replay <file>       run one saved case without the generator

Exit codes: 0 property held on everything explored (listed known findings are
printed as KNOWN-FINDING lines), 1 violation (a line
`VIOLATION property=<id> replay=<path>` is printed), 2 infrastructure trouble
(build failure, timeout, worker death that does not reproduce) - inconclusive.
"""
import hashlib
import json
import os
import shutil
import subprocess
import sys
import tempfile
import time

VERIF = os.path.dirname(os.path.dirname(os.path.abspath(__file__)))
REPO = os.environ.get("VERIF_REPO", "/repo")
sys.path.insert(0, os.path.join(VERIF, "driver"))
from props import PROPS  # noqa: E402

GOENV = {
    "GOFLAGS": "-mod=mod",
    "GOPROXY": "off",
    "GOSUMDB": "off",
    "GOTOOLCHAIN": "local",
    "GONOSUMDB": "*",
    "GONOSUMCHECK": "1",
    "GOFLAGS_EXTRA": "",
}


def log(*a):
    print(*a, file=sys.stderr, flush=True)


def scratch_root():
    for cand in ("/dev/shm", os.environ.get("TMPDIR", ""), "/tmp"):
        if cand and os.path.isdir(cand) and os.access(cand, os.W_OK):
            try:
                st = os.statvfs(cand)
                if st.f_bavail * st.f_frsize > 3 << 30:
                    return cand
            except OSError:
                pass
    return tempfile.gettempdir()


def goenv():
    e = dict(os.environ)
    e.update(GOENV)
    e.pop("GOFLAGS_EXTRA", None)
    return e


def ensure_modfile():
    """modfile/go.mod = the repository's go.mod + rapid + vlib (for -modfile builds)."""
    src = open(os.path.join(REPO, "go.mod")).read().rstrip("\n")
    extra = ("\n\nrequire (\n\tpgregory.net/rapid v1.3.0\n\tverif/vlib v0.0.0\n)\n\n"
             "replace verif/vlib => %s/vlib\n" % VERIF)
    want = src + extra
    p = os.path.join(VERIF, "modfile", "go.mod")
    if not os.path.exists(p) or open(p).read() != want:
        with open(p, "w") as f:
            f.write(want)
    # go.sum: repository's + rapid's lines
    sums = set()
    for q in (os.path.join(REPO, "go.sum"), os.path.join(VERIF, "vlib", "go.sum")):
        if os.path.exists(q):
            sums.update(l for l in open(q).read().splitlines() if l.strip())
    sp = os.path.join(VERIF, "modfile", "go.sum")
    want = "\n".join(sorted(sums)) + "\n"
    if not os.path.exists(sp) or open(sp).read() != want:
        with open(sp, "w") as f:
            f.write(want)


def build(kind, out, race=False):
    """Compile the test binary for one harness kind against REPO's working tree."""
    t0 = time.time()
    env = goenv()
    if kind == "harness":
        cmd = ["go", "test", "-c", "-tags", "verif", "-vet=off", "-o", out, "./props"]
        cwd = os.path.join(VERIF, "harness")
        if REPO != "/repo":
            # tooling only (parallel seed sweeps in scratch worktrees): same go.mod with the replace pointing elsewhere
            mf = out + ".go.mod"
            with open(mf, "w") as f:
                f.write(open(os.path.join(cwd, "go.mod")).read().replace("=> /repo", "=> " + REPO))
            shutil.copy(os.path.join(cwd, "go.sum"), out + ".go.sum")
            cmd[3:3] = ["-modfile", mf]
    else:
        pkgdir = {"storage": "storage", "csvimport": "cmd/csvimport", "console": "cmd/console"}[kind]
        ensure_modfile()
        src = os.path.join(VERIF, "inpkg", kind)
        overlay = {"Replace": {}}
        for fn in sorted(os.listdir(src)):
            if fn.endswith(".go"):
                overlay["Replace"][os.path.join(REPO, pkgdir, fn)] = os.path.join(src, fn)
        ov = out + ".overlay.json"
        with open(ov, "w") as f:
            json.dump(overlay, f)
        cmd = ["go", "test", "-c", "-tags", "verif", "-vet=off", "-overlay", ov,
               "-modfile", os.path.join(VERIF, "modfile", "go.mod"), "-o", out, "./" + pkgdir]
        cwd = REPO
    if race:
        cmd.insert(3, "-race")
    p = subprocess.run(cmd, cwd=cwd, env=env, stdout=subprocess.PIPE, stderr=subprocess.STDOUT, text=True)
    if p.returncode != 0 or not os.path.exists(out):
        log("BUILD FAILED (%s):\n%s" % (" ".join(cmd), p.stdout))
        return False
    log("built %s in %.1fs" % (kind, time.time() - t0))
    return True


def run_shards(binary, spec, tier, seed, root, replay=None, extra_env=None):
    """Run the test binary once per shard, in parallel. Returns list of shard dicts."""
    t = spec["tiers"][tier]
    shards = 1 if replay else t.get("shards", 1)
    procs = []
    for i in range(shards):
        d = os.path.join(root, "shard-%d" % i)
        os.makedirs(d, exist_ok=True)
        env = goenv()
        env.update({
            "VERIF_OUT": d, "VERIF_TIER": tier, "VERIF_SEED": str(seed), "VERIF_SHARD": str(i),
            "VERIF_SHARDS": str(shards), "VERIF_CASES": str(t.get("cases", 100)), "VERIF_JOURNAL": "1" if spec.get("journal") else "0",
            "VERIF_DIR": VERIF,
        })
        for k, v in t.get("env", {}).items():
            env[k] = str(v)
        if extra_env:
            env.update(extra_env)
        if replay:
            env["VERIF_REPLAY"] = replay
        if spec.get("race"):
            env["GORACE"] = "halt_on_error=0 log_path=%s/race" % d
        timeout = t.get("timeout", 900)
        cmd = [binary, "-test.run", "^%s$" % spec["test"], "-test.timeout", "%ds" % (timeout + 60), "-test.count", "1"]
        pre = None
        vmem = spec.get("ulimit_v_kb")
        if vmem:
            def pre(vmem=vmem):
                import resource
                resource.setrlimit(resource.RLIMIT_AS, (vmem * 1024, vmem * 1024))
        lf = open(os.path.join(d, "output.log"), "w")
        p = subprocess.Popen(cmd, cwd=d, env=env, stdout=lf, stderr=subprocess.STDOUT, preexec_fn=pre)
        procs.append({"i": i, "dir": d, "proc": p, "log": lf, "deadline": time.time() + timeout, "timeout": timeout})
    res = []
    for s in procs:
        p = s["proc"]
        try:
            p.wait(timeout=max(1, s["deadline"] - time.time()))
            s["rc"] = p.returncode
            s["timed_out"] = False
        except subprocess.TimeoutExpired:
            p.kill()
            p.wait()
            s["rc"] = -9
            s["timed_out"] = True
        s["log"].close()
        res.append(s)
    return res


def native_fuzz(pid, spec, root, violations, trouble):
    """Coverage-guided tier: go test -fuzz on all cores for a wall-clock budget (cannot be seeded)."""
    import glob, re
    nf = spec["native_fuzz"]
    d = os.path.join(root, "fuzz")
    os.makedirs(os.path.join(d, "work"), exist_ok=True)
    env = goenv()
    env.update({"VERIF_OUT": d, "VERIF_FUZZ_FAILDIR": d, "VERIF_TIER": "thorough", "VERIF_DIR": VERIF})
    pkgdir = os.path.join(VERIF, "harness", "props")
    crashdir = os.path.join(pkgdir, "testdata", "fuzz", nf["target"])
    shutil.rmtree(os.path.join(pkgdir, "testdata"), ignore_errors=True)
    cmd = ["go", "test", "-tags", "verif", "-vet=off", "./props", "-run", "^$", "-fuzz", "^%s$" % nf["target"],
           "-fuzztime", "%ds" % nf["seconds"], "-test.fuzzcachedir", os.path.join(d, "cache")]
    t0 = time.time()
    try:
        p = subprocess.run(cmd, cwd=os.path.join(VERIF, "harness"), env=env, stdout=subprocess.PIPE, stderr=subprocess.STDOUT,
                           text=True, timeout=nf["seconds"] + 300)
        out, rc = p.stdout, p.returncode
    except subprocess.TimeoutExpired as e:
        out, rc = (e.stdout or b"").decode(errors="replace") if isinstance(e.stdout, bytes) else (e.stdout or ""), -9
        trouble.append("native fuzzing exceeded its wall-clock budget")
    execs = 0
    for mm in re.finditer(r"execs: (\d+)", out):
        execs = max(execs, int(mm.group(1)))
    newint = 0
    for mm in re.finditer(r"new interesting: (\d+)", out):
        newint = max(newint, int(mm.group(1)))
    fails = sorted(glob.glob(os.path.join(d, "fuzzfail-*.json")))
    for fp in fails[:3]:
        try:
            f = json.load(open(fp))
            violations.append((f.get("message", "native fuzzing found a failing input"), save_replay(pid, f)))
        except Exception:
            pass
    # a worker that died (fatal error, stack overflow) cannot write its own failure file: go test saved the input
    if not fails and os.path.isdir(crashdir):
        for fn in sorted(os.listdir(crashdir))[:3]:
            try:
                body = open(os.path.join(crashdir, fn)).read()
                mm = re.search(r'\[\]byte\((".*")\)', body, re.S)
                data = subprocess.run(["go", "run", os.path.join(VERIF, "tools", "unquote.go"), mm.group(1)], env=env,
                                      stdout=subprocess.PIPE).stdout if mm else b""
                import base64
                case = {"input": base64.b64encode(data).decode(), "origin": "fuzz:" + fn}
                violations.append(("native fuzzing: the front end died or failed on a saved input (%s)" % fn,
                                   save_replay(pid, {"property": pid, "message": "found by go test -fuzz:\n" + out[-1200:], "case": case})))
                fails.append(fn)
            except Exception as e:
                trouble.append("could not convert fuzz crasher %s: %s" % (fn, e))
    if rc not in (0, -9) and not fails:
        trouble.append("go test -fuzz exited with %s without a recorded failing input:\n%s" % (rc, out[-1500:]))
    shutil.rmtree(os.path.join(pkgdir, "testdata"), ignore_errors=True)
    return {"target": nf["target"], "seconds": round(time.time() - t0, 1), "executions": execs, "new_interesting_inputs": newint,
            "failing_inputs": len(fails), "note": "coverage-guided, all cores, not seedable; only saved inputs are reproducible"}


def load_results(shard):
    out = []
    for fn in sorted(os.listdir(shard["dir"])):
        if fn.startswith("result-") and fn.endswith(".json"):
            try:
                out.append(json.load(open(os.path.join(shard["dir"], fn))))
            except Exception as e:  # partially written
                log("unreadable result %s: %s" % (fn, e))
    return out


def tail(path, n=40):
    try:
        return "".join(open(path, errors="replace").readlines()[-n:])
    except OSError:
        return ""


def save_replay(pid, failure):
    d = os.path.join(os.environ.get("VERIF_REPLAYS", os.path.join(VERIF, "replays")), pid)
    os.makedirs(d, exist_ok=True)
    body = json.dumps(failure, indent=1, sort_keys=True)
    h = hashlib.sha1(json.dumps(failure.get("case"), sort_keys=True).encode()).hexdigest()[:12]
    p = os.path.join(d, "%s.json" % h)
    with open(p, "w") as f:
        f.write(body + "\n")
    return p


def known_findings(pid):
    p = os.path.join(VERIF, "known_findings.json")
    if not os.path.exists(p):
        return []
    return [e for e in json.load(open(p)).get("entries", []) if e.get("property") == pid]


def merge(results):
    m = {"evaluations": 0, "nontrivial": set(), "labels": {}, "samples": [], "excluded": 0,
         "known_hits": {}, "extra": {}, "failures": [], "notes": []}
    for r in results:
        m["evaluations"] += r.get("evaluations", 0)
        if r.get("nontrivial") is None and r.get("nontrivial_count", 0) > 0:
            m["nt_omitted"] = max(m.get("nt_omitted", 0), r["nontrivial_count"])
        m["nontrivial"].update((r.get("nontrivial") or {}).keys())
        for k, v in (r.get("labels") or {}).items():
            m["labels"][k] = m["labels"].get(k, 0) + v
        for k, v in (r.get("known_hits") or {}).items():
            m["known_hits"][k] = m["known_hits"].get(k, 0) + v
        for k, v in (r.get("extra") or {}).items():
            m["extra"][k] = m["extra"].get(k, 0) + v
        m["excluded"] += r.get("excluded", 0)
        for s in (r.get("samples") or []):
            if len(m["samples"]) < 5:
                m["samples"].append(s)
        m["failures"].extend(r.get("failures") or [])
        m["notes"].extend(r.get("notes") or [])
    return m


def main():
    if len(sys.argv) < 3:
        log(__doc__)
        return 2
    pid = sys.argv[1]
    if pid not in PROPS:
        log("unknown property %s" % pid)
        return 2
    spec = PROPS[pid]
    replay = None
    if sys.argv[2] == "--replay":
        replay = os.path.abspath(sys.argv[3])
        tier = os.environ.get("VERIF_TIER", "quick")
    else:
        tier = sys.argv[2]
    if tier not in ("quick", "thorough"):
        log("tier must be quick or thorough")
        return 2
    try:
        seed = int(os.environ.get("VERIF_SEED", "1") or "1")
    except ValueError:
        seed = 1
    t0 = time.time()
    root = tempfile.mkdtemp(prefix="verif-%s-" % pid, dir=scratch_root())
    try:
        return run(pid, spec, tier, seed, replay, root, t0)
    finally:
        shutil.rmtree(root, ignore_errors=True)


def run(pid, spec, tier, seed, replay, root, t0):
    binary = os.path.join(root, "%s.test" % spec["kind"])
    if not build(spec["kind"], binary, race=spec.get("race", False)):
        return 2
    violations = []   # (message, replay path)
    trouble = []
    known_lines = []

    # 1. known findings and fixed defects: replay their witnesses
    witness_stats = {"fixed_witnesses_passed": 0, "finding_witnesses_still_failing": 0}
    if not replay:
        for e in known_findings(pid):
            for w in e.get("witnesses", []):
                wpath = os.path.join(VERIF, w)
                wroot = os.path.join(root, "w-%s" % hashlib.sha1(w.encode()).hexdigest()[:8])
                os.makedirs(wroot)
                wspec = dict(spec)
                if e.get("test"):
                    wspec["test"] = e["test"]
                rs = run_shards(binary, wspec, tier, seed, wroot, replay=wpath)
                results = [r for s in rs for r in load_results(s)]
                died = any(s["rc"] not in (0, 1) for s in rs)
                fails = [f for r in results for f in (r.get("failures") or [])]
                if e["status"] == "fixed":
                    # a failure classified as a (different) listed finding is not a regression of this defect
                    fails = [f for f in fails if not f.get("known")]
                    if fails or died or not results:
                        msg = fails[0]["message"] if fails else "worker died / no result (rc=%s)\n%s" % ([s["rc"] for s in rs], tail(os.path.join(rs[0]["dir"], "output.log")))
                        violations.append(("regression of fixed defect %s: %s" % (e["id"], msg), wpath))
                    else:
                        witness_stats["fixed_witnesses_passed"] += 1
                elif e["status"] == "finding":
                    # still failing the way it is listed?
                    if fails and all(f.get("known") == e["id"] for f in fails):
                        known_lines.append("KNOWN-FINDING: property=%s %s [%s]" % (pid, e["what"], e["id"]))
                        witness_stats["finding_witnesses_still_failing"] += 1
                    elif died and e.get("dies"):
                        known_lines.append("KNOWN-FINDING: property=%s %s [%s]" % (pid, e["what"], e["id"]))
                        witness_stats["finding_witnesses_still_failing"] += 1
                    elif fails:
                        violations.append(("witness of %s fails differently than listed: %s" % (e["id"], fails[0]["message"]), wpath))
                    # passes now: print nothing

    # 2. the search itself (or the single replay)
    rs = run_shards(binary, spec, tier, seed, os.path.join(root, "main"), replay=replay)
    results = []
    for s in rs:
        rr = load_results(s)
        results.extend(rr)
        if s["timed_out"]:
            trouble.append("shard %d exceeded its time budget of %ds (inconclusive)" % (s["i"], s["timeout"]))
        elif s["rc"] not in (0, 1) or not rr:
            # worker death: look for the journalled case and try to reproduce
            cur = os.path.join(s["dir"], "current.json")
            crash = tail(os.path.join(s["dir"], "crash.log"), 30) or tail(os.path.join(s["dir"], "output.log"), 30)
            if os.path.exists(cur) and spec.get("journal"):
                keep = os.path.join(root, "journal-%d.json" % s["i"])
                shutil.copy(cur, keep)
                r2 = run_shards(binary, spec, tier, seed, os.path.join(root, "rejournal-%d" % s["i"]), replay=keep)
                died2 = any(x["rc"] not in (0, 1) for x in r2)
                res2 = [r for x in r2 for r in load_results(x)]
                fails2 = [f for r in res2 for f in (r.get("failures") or [])]
                if died2:
                    case = json.load(open(keep))
                    rp = save_replay(pid, {"property": pid, "message": "process died (not a recoverable panic):\n" + crash, "case": case})
                    violations.append(("process death reproduces", rp))
                elif fails2:
                    results.extend(res2)
                else:
                    trouble.append("shard %d died (rc=%s) but its journalled case passes in a fresh process:\n%s" % (s["i"], s["rc"], crash))
            else:
                trouble.append("shard %d died (rc=%s) without a result:\n%s" % (s["i"], s["rc"], crash))
        if os.path.exists(os.path.join(s["dir"], "trouble.txt")):
            trouble.append("shard %d: %s" % (s["i"], open(os.path.join(s["dir"], "trouble.txt")).read()[:2000]))
    m = merge(results)
    fuzz_info = None
    if not replay and tier == "thorough" and spec.get("native_fuzz") and not any(not f.get("known") for f in m["failures"]):
        fuzz_info = native_fuzz(pid, spec, root, violations, trouble)
    for f in m["failures"]:
        if f.get("known"):
            continue
        rp = replay if replay else save_replay(pid, f)
        violations.append((f["message"], rp))

    # 3. evidence
    wall = time.time() - t0
    t = spec["tiers"][tier]
    cov = {
        "evaluations": m["evaluations"],
        "distinct_nontrivial": max(len(m["nontrivial"]), m.get("nt_omitted", 0)),
        "rule": spec["rule"],
        "samples": m["samples"][:4] if m["samples"] else ["(no non-trivial sample small enough to print)"],
        "labels": dict(sorted(m["labels"].items())),
        "excluded_known_region": m["excluded"],
        "known_finding_hits": m["known_hits"],
        "shards": t.get("shards", 1),
        "cases_requested_per_shard": t.get("cases", 0),
    }
    cov.update(m["extra"])
    if m.get("nt_omitted"):
        cov["distinct_nontrivial_note"] = "lower bound: at least one shard had too many distinct non-trivial cases to ship its fingerprints; the count is the maximum of (largest such shard, union of the others)"
    cov.update(witness_stats)
    if fuzz_info:
        cov["native_fuzz"] = fuzz_info
    if spec.get("exhaustive_note"):
        cov["exhaustive_part"] = spec["exhaustive_note"]
    ev = {
        "property_id": pid, "tier": tier, "seed": seed, "level": spec["level"],
        "coverage": cov, "assumptions": spec.get("assumptions", []), "wall_s": round(wall, 2),
        "violations": len(violations),
    }
    if m["notes"]:
        ev["coverage"]["notes"] = m["notes"][:20]
    if trouble:
        ev["coverage"]["inconclusive"] = trouble[:10]
    if not replay:
        evdir = os.environ.get("VERIF_EVIDENCE", os.path.join(VERIF, "evidence"))
        os.makedirs(evdir, exist_ok=True)
        with open(os.path.join(evdir, "%s.json" % pid), "w") as f:
            json.dump(ev, f, indent=1, sort_keys=True)
            f.write("\n")

    for l in known_lines:
        print(l)
    if violations:
        seen = set()
        for msg, rp in violations:
            log("---- %s violation: %s" % (pid, msg[:3000]))
            if rp not in seen:
                print("VIOLATION property=%s replay=%s" % (pid, rp))
                seen.add(rp)
        sys.stdout.flush()
        return 1
    if trouble:
        for tr in trouble:
            log("INCONCLUSIVE %s: %s" % (pid, tr))
        return 2
    if not replay:
        short = m["evaluations"] < spec["tiers"][tier].get("min_evaluations", 1)
        if short:
            log("INCONCLUSIVE %s: only %d evaluations" % (pid, m["evaluations"]))
            return 2
    print("OK property=%s tier=%s seed=%d evaluations=%d distinct_nontrivial=%d wall=%.1fs" % (
        pid, tier, seed, m["evaluations"], cov["distinct_nontrivial"], wall))
    return 0


if __name__ == "__main__":
    sys.exit(main())
