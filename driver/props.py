"""Per-property configuration of the driver: which binary, which test, budgets."""

def tiers(qcases, qshards, tcases, tshards, qtimeout=600, ttimeout=3000, qenv=None, tenv=None):
    return {
        "quick": {"cases": qcases, "shards": qshards, "timeout": qtimeout, "env": qenv or {}},
        "thorough": {"cases": tcases, "shards": tshards, "timeout": ttimeout, "env": tenv or {}},
    }

PROPS = {
    "C12": {
        "kind": "storage", "test": "TestVerifC12", "level": "exploration",
        "tiers": tiers(5000, 4, 60000, 16),
        "rule": "rapid-generated nodes built with the engine's own mutators (leaf: 0..9 cells, values 0..400 bytes of three byte patterns, "
                "any tombstone subset, all sibling flag/offset combinations, any LSN/offset, optional post-split halves; internal: 0..290 cells, optional split) "
                "plus an exhaustive sweep of all leaf shapes with <=3 cells x sizes {0,1,400} x tombstones x flags (shard 0). "
                "Non-trivial: leaf with a tombstone and a sibling flag, or a node at (max-1..max) occupancy with a maximum-size value / internal node with >=289 cells; "
                "distinct by canonical case JSON (FNV-64).",
        "assumptions": ["keys arrive in ascending order (the engine's shared counter), so the offset array is the identity; non-identity offset arrays are not generated"],
        "technique": "property-based testing (rapid): generated nodes, encode/decode round-trip + file-store round-trip + idempotence oracle; bounded-exhaustive small shapes",
        "level_text": "Random and bounded-exhaustive search over node shapes the engine's mutators can build, each checked against three round-trip oracles (decode(encode), cold fetch after update, byte-idempotent re-encode). It gives high confidence that no field is dropped, reordered or mis-sized for producible nodes up to maximum occupancy; it is search, not proof.",
        "level_note": "Trusted: the logical-content projection in the test (reads the node structs in-package); ascending-key assumption (offset arrays are the identity). Crash/torn writes are C04's business, not covered here.",
        "exhaustive_note": "all 1036 leaf shapes with <=3 cells over sizes {0,1,400} x tombstone subsets x 4 sibling-flag combinations",
    },
}

HOOK_COMMITS = ["7ca683e"]

NOT_APPLICABLE = {}
