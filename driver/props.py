"""Per-property configuration of the driver: which binary, which test, budgets."""

def tiers(qcases, qshards, tcases, tshards, qtimeout=600, ttimeout=3000, qenv=None, tenv=None):
    return {
        "quick": {"cases": qcases, "shards": qshards, "timeout": qtimeout, "env": qenv or {}},
        "thorough": {"cases": tcases, "shards": tshards, "timeout": ttimeout, "env": tenv or {}},
    }

PROPS = {
    "C12": {
        "kind": "storage", "test": "TestVerifC12", "level": "exploration",
        "tiers": tiers(40000, 8, 600000, 16),
        "rule": "rapid-generated nodes built with the engine's own mutators (leaf: 0..9 cells, values 0..400 bytes of three byte patterns, "
                "any tombstone subset, all sibling flag/offset combinations, any LSN/offset, optional post-split halves; internal: 0..290 cells, optional split) "
                "plus an exhaustive sweep of all leaf shapes with <=3 cells x sizes {0,1,400} x tombstones x flags (shard 0). "
                "A leaf read back must also behave like the page written: the same update applied to it must give the expected page, also after another write + read. An update the page refuses must leave it unchanged. Non-trivial: leaf with a tombstone and a sibling flag, or a node at (max-1..max) occupancy with a maximum-size value / internal node with >=289 cells; "
                "distinct by canonical case JSON (FNV-64). Second part (1/40 of the budget): a table driven through RelationService in phases (fill, churn, grow, shrink, purge, reload); after every operation every cached page must encode to 4096 bytes and decode to itself - the pages the insertion policy of the tree under test produces, not only the shapes of today's policy.",
        "assumptions": ["keys arrive in ascending order (the engine's shared counter), so the offset array is the identity; non-identity offset arrays are not generated"],
        "technique": "property-based testing (rapid): generated nodes, encode/decode round-trip + file-store round-trip + idempotence oracle; bounded-exhaustive small shapes",
        "level_text": "Random and bounded-exhaustive search over node shapes the engine's mutators can build, each checked against three round-trip oracles (decode(encode), cold fetch after update, byte-idempotent re-encode). It gives high confidence that no field is dropped, reordered or mis-sized for producible nodes up to maximum occupancy; it is search, not proof.",
        "level_note": "Trusted: the logical-content projection in the test (reads the node structs in-package); ascending-key assumption (offset arrays are the identity). Crash/torn writes are C04's business, not covered here.",
        "exhaustive_note": "all 1036 leaf shapes with <=3 cells over sizes {0,1,400} x tombstone subsets x 4 sibling-flag combinations",
    },
}

PROPS["C01"] = {
    "kind": "harness", "test": "TestC01", "level": "exploration", "journal": True,
    "tiers": tiers(1500, 8, 20000, 16),
    "rule": "rapid-generated histories of 5-60 valid CREATE TABLE / INSERT (single, multi-row, with column lists, direct values incl. negative ints, bytes, NULL) / "
            "UPDATE / DELETE statements over 1-12 tables, executed as SQL text through Session.ExecQuery (direct statement values through engine.Evaluate*), "
            "with generated flushes; after every k-th statement and at the end SELECT * of each table is compared as a sequence with the reference model, "
            "row ids must be stable, strictly increasing and never reused, and sys_schema / sys_pages must equal the declared schemas; the end state is compared again after a flush + reload and after USE of another database and back (close and reopen without log replay). "
            "One CREATE TABLE in eight uses a name differing from an existing table's only in letter case; the end state is compared once more after a clean shutdown and restart. An idle database exists on either side of the one under test (also in C02-C04, C07, C08, C14, C16). One WHERE literal in twelve is of another type but prints like the column's value (= / != only; never equal). Non-trivial: an UPDATE/DELETE on a table that later goes through >=1 more leaf split, or >=2 switches between tables among the inserts, or >=7 tables (sys_pages split); distinct by case JSON. Since round 11: tables of 9-129 columns (one CREATE TABLE in fourteen), a second fixed history of 1900 rows, and rows returned by a SELECT are re-checked at every later query (they must not change).",
    "technique": "stateful property-based testing (rapid) against an in-memory reference model",
    "level_text": "Model-based random search over statement histories biased to cross the structural thresholds (9-cell leaves, catalog splits, multi-level trees in the thorough tier). Finds lost/duplicated/resurrected/leaked rows and catalog drift on the explored histories; it cannot show their absence in general.",
    "level_note": "Trusted: the reference model (harness/model) and the comparison code. The flush timer is replaced by generated explicit flushes (hook VerifNoTimer); concurrency is C13's business.",
    "assumptions": ["WHERE clauses only over NULL-free columns with well-typed operands", "no DML on the catalog tables", "column lists name existing, distinct columns"],
}

PROPS["C02"] = {
    "kind": "harness", "test": "TestC02", "level": "fault_enumeration", "journal": True,
    "tiers": tiers(800, 8, 12000, 16),
    "rule": "rapid-generated cases of 1-4 segments of valid DDL/DML histories (<=22 statements each, 1-9 tables) with a generated flush pattern "
            "(never / always / random subset / only after DDL), each segment ended by process death (stores abandoned, nothing flushed) or clean shutdown; "
            "in segment 0 a crash image (copy of data file and log) is taken after EVERY statement and recovered with the real InitStorage; every image and every "
            "segment end is recovered twice and compared (value sequences, stable never-reused row ids, catalog) with the model at that statement boundary; later segments run on the recovered files. "
            "Low-rate profile 'deep tree': a 1100-1500 row bulk load (three tree levels), then inserts/deletes/updates of the most recent rows before the crash points. One segment in four is interleaved with statements that are invalid on purpose (they must be refused and leave no trace, also in later recoveries). The refused statements also include CREATE TABLEs (existing table; a column the catalog cannot record). Non-trivial: some crash point had both flushed and log-only acknowledged changes (dirty pages present after an earlier flush) and the case contains UPDATE or DELETE; distinct by case JSON. Since round 11 one case in three recovers every image first with a recovery-time page cache of 8-96 pages (hook VerifInitCacheSize), judged only when the replayed pages never filled that cache. Since round 12: aged databases in three cases of eight; USE of the own database (any letter case) inside histories.",
    "technique": "fault injection by enumeration of crash points per generated history (rapid), recovery compared with a reference model",
    "level_text": "For every generated history all between-statement crash points of the first segment plus every segment end are enumerated and recovered with the real recovery code, under generated flush placements and repeated crash/recover cycles. Exhaustive per history, random over histories.",
    "level_note": "Crash = process death: every completed write is in the files (mkdb never fsyncs the data file, so this is the strongest model the code could meet). Flush timer replaced by explicit generated flushes (VerifFlush is the timer's tick). Trusted: reference model, image copy.",
    "assumptions": ["crash = process death, no lost or reordered completed writes", "flush timer ticks only between statements (C13 checks that separately)"],
}

PROPS["C03"] = {
    "kind": "harness", "test": "TestC03", "level": "fault_enumeration", "journal": True,
    "tiers": tiers(800, 8, 12000, 16),
    "rule": "rapid-generated histories (3-18 valid statements, generated flushes) in which 1-3 INSERT/UPDATE/DELETE statements (multi-row three times as often as single-row) are victims; the verif hook fires before "
            "EVERY write and fsync the victim issues on the log, and at each such point two crash images are taken (log as written so far; log cut at the last fsync); every image is "
            "recovered with the real InitStorage and must equal the model state before the victim plus the first r row operations for some r in 0..n (other tables untouched, catalog intact), "
            "then 1-3 follow-up multi-row inserts run on the recovered files and are compared with the model continued from that prefix. "
            "One case in five starts with 7-11 tables (multi-page catalog). One case in six has a restart inside the history (burst of CREATE TABLEs, restart, root-moving INSERT); follow-up inserts go into every table. After the follow-up inserts the process ends (cleanly / by death, alternating) and starts a second time; the state must be the same. In half of the cases crash images are taken before every PHYSICAL write to the log file (the file is wrapped on request, hook wal.fwrite), in the other half before the logical write in wal.flush; always before every fsync. Non-trivial: a victim with >=3 row operations whose images recovered to at least two different prefixes r (e.g. r=0 before the log write and r=n after the write but before its fsync; proper prefixes 0<r<n are labelled separately); distinct by case JSON. Since round 12: aged databases in three cases of eight.",
    "technique": "fault injection at every log write/fsync call of generated victim statements (rapid + build-tag hook), prefix-state oracle from a reference model",
    "level_text": "All log-write crash points of each generated victim statement are enumerated (exhaustive per statement, both tail-cut variants) and recovered with the real code; histories and victims are random.",
    "level_note": "Crash = process death at a write-call boundary (the property's own granularity); a torn individual write() is not generated. Trusted: reference model with prefix semantics, hook placement (before each Write/Sync in wal.flush).",
    "assumptions": ["a single write(2) on the log is atomic with respect to process death"],
}

PROPS["C04"] = {
    "kind": "harness", "test": "TestC04", "level": "fault_enumeration", "journal": True,
    "tiers": tiers(200, 8, 2500, 16),
    "rule": "rapid-generated histories (3-16 valid statements, flush after most statements) ending in shutdown or process death; EVERY flush in them (timer tick = VerifFlush, the one ending CREATE TABLE, "
            "the one in shutdown, and the one that ends recovery of the crashed image) is recorded through the hooks and its torn states are composed: pre-flush file + subset S of the flushed pages + old header, "
            "all 2^|D| subsets for |D|<=6 else >=64 sampled incl. all singletons and co-singletons; each composed image is recovered with the real InitStorage and compared with the model of all statements acknowledged "
            "before the flush began (an in-flight CREATE TABLE may or may not exist). Subsets inside the listed finding's region (proper non-empty subsets of a flush that wrote a page at/after the on-disk allocation frontier) are "
            "excluded from the verdict, counted, and a sample of them is recovered in a child process for the statistics. Low-rate profiles: 4-8 tables up front with further CREATE TABLEs (a flush has to publish a new catalog root), and an unflushed 1040-1400 row bulk load (one flush of several hundred pages). After recovering a torn state (first, last, all-pages and every third composition) one more INSERT per table is issued (newest table first), the process dies again without a flush and the second recovery is compared too. One case in four carries refused INSERTs between its statements. Non-trivial: a case with a flush of >=2 dirty pages for which a proper non-empty subset outside the region was recovered; distinct by case JSON. Second part since round 12: one case per shard (thorough: eight) is run by a child process under strace, which kills it on entering the N-th pwrite64 for every physical write N of a flush that follows UPDATE/DELETE statements only; the parent recovers and compares with all (acknowledged) statements.",
    "technique": "fault injection by composing torn flush states (page subsets) per recorded flush of generated histories (rapid + hooks), recovery compared with a reference model; plus process death injected at every physical pwrite64 of a flush (strace) in a child process",
    "level_text": "Per generated history every flush is attacked with all (or >=64 sampled) page-subset torn states at page granularity, which covers every write order Go's map iteration could take; histories are random. The region of the listed structural finding is excluded by construction and counted.",
    "level_note": "Page-granular tearing (a torn 4096-byte write is not generated); crash = process death. Trusted: the composition (checked against the real file after each flush by construction: S=D + new header is the real post image), reference model.",
    "assumptions": ["a single page write is atomic", "crash = process death, completed writes are in the file"],
}

PROPS["C10"] = {
    "kind": "harness", "test": "TestC10", "level": "exploration",
    "tiers": tiers(40000, 8, 600000, 16),
    "rule": "rapid-generated statement trees over the whole supported grammar (SELECT with <=3 joins, OR-of-AND conditions, aggregates with GROUP BY, ORDER BY <=6 keys, LIMIT/OFFSET in both orders; multi-row INSERT, UPDATE, DELETE, CREATE TABLE/DATABASE, USE, SHOW DATABASE[S]), "
            "each rendered twice with independent layout choices (keyword case, spaces/tabs/newlines, optional INNER/AS/ASC, delimited identifiers, trailing semicolon) and parsed by the real scanner+parser; "
            "both parses must equal, structurally (canonical printer over the sql AST), the AST the tree denotes. Plus exhaustively (shard 0): all 63 OR/AND shapes with <=6 comparisons x all 2^n valuations in 6 clause contexts, "
            "evaluated over the parsed AST by an independent evaluator against 'AND binds tighter than OR'. One identifier in twelve is a keyword / blank-containing / dotted / digit-led name (written delimited) or a name in another script (also written bare). Names beginning or ending with a keyword (order_id, t_select, Database_Name); string literals with typographic quotes, back-ticks, no-break spaces. Each case carries 0-3 texts that are not statements, parsed before and between the renderings (a refusal must leave nothing behind in the parser). Non-trivial: >=2 clauses beyond FROM, or a list with >=3 elements, or a condition mixing AND and OR; distinct by tree JSON.",
    "technique": "grammar-based property testing (rapid): render/parse round trip against an explicit tree-to-AST mapping, metamorphic double rendering, bounded-exhaustive boolean shapes",
    "level_text": "Random search over statement trees and their renderings with a structural round-trip oracle; the precedence sub-property is checked exhaustively up to 6 comparisons. Search, not proof.",
    "level_note": "Trusted: the harness's tree-to-AST mapping (mk/ast.go) and canonical printer (token positions and nil-vs-empty lists are normalised away). Only statements of the grammar the parser implements are generated (no parentheses, no NULL literal, no unary minus).",
    "exhaustive_note": "all 63 OR/AND shapes with <=6 leaves x all leaf valuations (4032 conditions)",
}

PROPS["C09"] = {
    "kind": "harness", "test": "TestC09", "level": "exploration", "journal": True, "ulimit_v_kb": 16 * 1024 * 1024,
    "tiers": tiers(20000, 8, 300000, 16),
    "native_fuzz": {"target": "FuzzC09", "seconds": 150},
    "rule": "inputs to exactly engine.parseSQL's pipeline (NewTokenScanner -> TokenList -> Parser.Parse) under recover() and a 10 s hang watchdog: (a) bounded-exhaustive: every sequence of 3 tokens over the full vocabulary "
            "(all keywords, identifiers, delimited identifiers, small/20-digit/hex/octal/float/underscore numerals, strings, lone quotes, every punctuation and comment opener; ~130 tokens, split over the shards), thorough: also length 4 over ~50 class representatives; "
            "(b) every kind of truncation (byte and token prefixes) of rapid-generated valid statements; (c) token-level mutations (delete/duplicate/swap/replace/splice); (d) a fixed list of hostile constants and the saved corpus; (e) random token soup, random bytes, "
            "64 KiB repetition chains; thorough: plus native coverage-guided go test -fuzz on all cores. Bounded-exhaustive sweep over all sequences of 1-3 of ~45 characters with unusual case mappings, as word / literal / delimited identifier, alone and inside a statement. Non-trivial: input rejected by the parser with >=3 tokens, or a truncation of a valid statement; distinct by token-type sequence + verdict.",
    "technique": "bounded-exhaustive token enumeration + grammar-based mutation (rapid) + native coverage-guided fuzzing; oracle: returns a statement or an error, no panic, terminates",
    "level_text": "Totality search: exhaustive over short token sequences, random/grammar-mutational over longer inputs, coverage-guided in the thorough tier. Cannot show absence of a crashing input beyond the explored ones.",
    "level_note": "A hang is declared only after 10 s without progress on one input (4 orders of magnitude above normal). Memory exhaustion would surface as a worker death (virtual memory capped), reported as inconclusive unless reproducible. Native fuzzing cannot be seeded; only its saved inputs are reproducible.",
    "exhaustive_note": "all token sequences of length 3 over the full vocabulary (quick+thorough), length 4 over class representatives (thorough)",
}

PROPS["C05"] = {
    "kind": "harness", "test": "TestC05", "level": "exploration",
    "tiers": tiers(6000, 8, 100000, 16),
    "rule": "rapid-generated (table, query) pairs: a table of 2-5 NULL-free columns over all four types with 0-40 rows from small value domains (ties, duplicates, empty tables), and 1-10 SELECTs over it written as SQL text with layout variations: "
            "select list * or 1-4 items (columns, optionally qualified by table name or alias; comparison/boolean expressions; literals; aliases with or without AS), WHERE = OR-of-ANDs of well-typed comparisons (column/literal in either order, column/column), "
            "ORDER BY 0-3 output columns by name, alias or qualified name with ASC/DESC/default, LIMIT and OFFSET in either order with values around the result size. Oracle: reference evaluator (harness/ref); without ORDER BY exact sequence, with ORDER BY a validity predicate "
            "(length, sort-key tuples of the window, per-key-class sub-multiset) that accepts every order of tied rows; headings compared where the property determines them (column name or alias). Every query additionally goes through Session.ExecQuery - the console's route, which only prints - with standard output captured: the printed table must be the table of the evaluated result; pairs of queries that differ only inside a string literal (letter case, spacing) are generated for this. String values include near-duplicates (trailing / leading blanks, letter case, numeric look-alikes). LIMIT/OFFSET include the largest integers. Non-trivial: WHERE mixing AND and OR over >=3 comparisons, or >=2 sort keys with a tie on the first, or OFFSET/LIMIT cutting through the result, with a filter keeping neither nothing nor everything; distinct by (table, rows, query) JSON.",
    "technique": "property-based differential testing (rapid) against an independent reference evaluator; tie-tolerant validity predicate for ORDER BY",
    "level_text": "Random search over tables and grammar-derived queries compared with a reference meaning. Search, not proof.",
    "level_note": "Trusted: harness/ref evaluator and model. Only well-typed queries over NULL-free columns (the property's domain); ORDER BY keys are output columns (the engine documents ErrSortFieldNotFound otherwise).",
}

PROPS["C06"] = {
    "kind": "harness", "test": "TestC06", "level": "exploration",
    "tiers": tiers(4000, 8, 70000, 16),
    "rule": "rapid-generated cases: 1-3 tables (INT key over {0..3} so keys repeat and rows stay unmatched, shared and table-unique column names, 0-12 rows, empty tables included) and 1-8 queries with a left-deep chain of 1-2 joins "
            "(JOIN / INNER JOIN / LEFT JOIN / RIGHT JOIN, the same table twice under two aliases allowed), ON = 1-2 comparisons (=, <, !=, >=; AND or OR) between columns of tables that cannot be NULL-padded at that point (plus, in a second join, equality against a column of a NULL-padded table, which is never true for the padded rows), "
            "select list * or qualified/unique-unqualified columns, optional WHERE on a never-padded column, all as SQL text; 1 in 6 queries misaddresses a column on purpose (unqualified but present on both sides; name-qualified although aliased; unknown) and must be rejected. "
            "Oracle: reference nested loops + NULL padding compared as multisets of value tuples, headers compared. Tables may share a VARCHAR column s and ON may contain s = s next to the INT comparison (composite keys whose printed concatenations coincide). One ON conjunct in twelve compares two literals; in one case of four sys_schema takes part in the joins. Non-trivial: two-join chain, or self-join, or a NULL-padded row together with a duplicated join key, or a must-be-rejected query; distinct by (tables, query) JSON. Since round 11 now and then an input of 32-100 rows; since round 12 must-be-rejected queries with two occurrences under one name and ambiguous operands anywhere in ON.",
    "technique": "property-based differential testing (rapid) against a reference join evaluator, multiset comparison; negative cases for addressing rules",
    "level_text": "Random search over small tables and join chains against the relational definition. Search, not proof.",
    "level_note": "Trusted: harness/ref. ON/WHERE never touch NULL-padded columns (SQL three-valued logic is outside the property). Result order is not compared.",
}

PROPS["C07"] = {
    "kind": "harness", "test": "TestC07", "level": "exploration",
    "tiers": tiers(4000, 8, 70000, 16),
    "rule": "rapid-generated cases: table t0(g1 INT, g2 VARCHAR, n INT nullable, v INT, w BIGINT) with 0-60 rows whose grouping values collide when printed and concatenated (ints {1,2,3,12,23,123}, strings {'1','12','2','','<nil>','true',...}), "
            "NULLs in every grouping column including the table's first column (NULL next to the string '<nil>', strings containing commas, a second VARCHAR grouping column), AVG columns small or up to +-2^31 / +-2^40, optionally t1 for a join; 1-8 aggregate queries as SQL text: COUNT(*), COUNT(col), AVG(col) in any select-list position, 0-3 grouping columns referenced in GROUP BY (comma separated) by name, qualified name or alias, "
            "optional WHERE and JOIN. Oracle: reference grouping by value tuples, exact rational mean (either neighbour accepted at an exact half), compared as a multiset; metamorphic second run on a shadow database holding the same rows in a generated permutation. "
            "An AVG cell that deviates from the true rounded mean but equals the running mean re-rounded after every row in scan order is classified as the listed finding C07-avg-running-mean (counted, not raised). "
            "One query in four carries LIMIT/OFFSET (the answer must be a sub-multiset of the aggregated rows of exactly the window's size); aliases may shadow another grouping column's name under fully qualified GROUP BY references (refusal as ambiguous allowed, a wrong answer not). One case in three also sends the query texts through Session.ExecQuery, alternating between two databases holding tables of the same names with different rows: the printed table must be the one evaluated in the selected database. Non-trivial: >=2 grouping columns with two groups whose concatenated printed keys coincide, or an AVG group whose running-rounded mean differs from the true rounded mean, or a grouping column that is not first in the select list; distinct by (tables, query) JSON. Since round 11: BOOLEAN / BIGINT (beyond 2^53) / all-NULL grouping columns, up to six grouping columns, 7-33 aggregates in one query in ten, ORDER BY over aggregated rows.",
    "technique": "property-based differential testing (rapid) against a reference aggregator + metamorphic row-order permutation",
    "level_text": "Random search over tables built to provoke key collisions and rounding differences, compared with exact arithmetic. Search, not proof.",
    "level_note": "Trusted: harness/ref. AVG only over NULL-free integer columns, grouping columns always in the select list (the property's domain). The listed AVG finding is recognised by its exact mechanism (value equals the legacy running mean), any other deviation is a violation.",
}

PROPS["C08"] = {
    "kind": "harness", "test": "TestC08", "level": "exploration", "journal": True,
    "tiers": tiers(1500, 8, 25000, 16),
    "rule": "rapid-generated cases: a schema of 1-8 columns in any mix/order of the four types (first column a unique row number), optionally 3-40 pre-filled and flushed rows (a table over several clean leaves), then two phases of single-row operations: INSERT and UPDATE of boundary-biased values "
            "(INT/BIGINT extremes, 2^53+1, empty strings, NUL/0xFF/invalid UTF-8 bytes, NULLs), rows built to encode to exactly 400 bytes (must be accepted) and 401 bytes (must be refused), wrong-kind values, INT beyond 32 bits; "
            "each statement as SQL text when the dialect can express it, else as direct statement values. After every statement SELECT * must equal the model bit-for-bit (refused statements: error and unchanged table); "
            "the comparison is repeated after flush + cache shrink to 6 pages + scan of another table (eviction, reload from disk), after a clean restart, (one case in three) after USE of another database and back, and (phase 2, unflushed) after crash + recovery. "
            "Operations include single-row DELETEs; the case ends with one more clean restart after the crash + recovery. One INSERT in three names all columns in a permuted order. Pairs of UPDATEs whose texts differ only in white space inside the string literal. One-statement UPDATEs over all rows. Non-trivial: a 400-byte boundary row with at least one reload, or a refused value placed in a column that is not the first; distinct by case JSON. Since round 12: aged databases (row ids / LSNs around 2^16, 2^24, 2^31, 2^32 and beyond, hook VerifAdvanceCounters) in three cases of eight; a refused CREATE TABLE with another column list first in every new session in half of the cases.",
    "technique": "property-based round-trip testing (rapid) across four observation points (memory, reloaded page, restart, crash recovery) against a reference model with its own size/validity rules",
    "level_text": "Random search biased to encoding boundaries; the 400/401 boundary is computed by the model's own size formula, not taken from the code. Search, not proof.",
    "level_note": "Trusted: model.EncodedSize / ValidateValue (written from the documented row format), exact Go-value comparison. Multi-row failing statements are C14's business and not generated here.",
}

PROPS["C14"] = {
    "kind": "harness", "test": "TestC14", "level": "exploration", "journal": True,
    "tiers": tiers(3000, 8, 50000, 16),
    "rule": "rapid-generated cases: a database state built by a valid history of 2-14 statements (generated flushes, so changes may be unflushed), then ONE failing statement: INSERT/UPDATE/DELETE on an unknown table, duplicate CREATE TABLE, "
            "and INSERT with column-count mismatch / type mismatch / INT out of range / oversize row where the offending row sits at every index k of n rows, UPDATE with a bad value, UPDATE that becomes oversize only at the k-th matching row, CREATE TABLE whose k-th column the catalog cannot record, DELETE/UPDATE whose WHERE cannot be evaluated for a later row, the table addressed in another letter case (the last three are the implementation's choice to refuse: checked as implication only). "
            "Oracle: an error is returned and every table, row id and the catalog equal the model of the history, immediately, after crash + recovery of the files as they are, and after (optional tick +) clean restart; then a valid insert per table must work. "
            "A deviation that is exactly 'the row operations before the offending one stayed applied' is classified as the listed finding C14-multirow-partial-apply (counted, not raised); anything else is a violation. "
            "Every shard also runs one fixed huge VALID statement (3000-5500 row INSERT/UPDATE, 7000-12000 row DELETE) under the implication-only oracle (if it fails, nothing stays behind). Further implication-only kind: CREATE TABLE naming a column twice. After a failure on an unknown table half of the cases create that table in the same session, fill it and compare. One case in four issues a refused USE before the failing statement. Non-trivial: multi-row statement with the offending row not first, or unflushed changes present before the failing statement; distinct by case JSON. Since round 12 a failing UPDATE is, one time in two, sandwiched between two valid UPDATEs of the same rows.",
    "technique": "property-based testing (rapid) of failing statements against a reference model, observed at three points (memory, crash recovery, restart)",
    "level_text": "Random search over states and failing statements with the offending row at every position. Search, not proof.",
    "level_note": "Trusted: model validity classification (model.Apply) and prefix semantics. The listed finding is recognised by its exact after-state; a different residue is reported.",
}

PROPS["C16"] = {
    "kind": "harness", "test": "TestC16", "level": "exploration", "journal": True,
    "tiers": tiers(400, 8, 6000, 16),
    "rule": "rapid-generated histories of 25-90 valid statements over up to 14 tables (every statement's dirty set fits the cache - the property's precondition: INSERTs of at most 4*(cache-6) rows, UPDATE/DELETE touching at most cache-6 rows - while the tables themselves grow far beyond the cache), executed twice through the real engine: "
            "with the default cache of 10000 pages and with a cache of a generated capacity 12-40 pages (hook VerifSetCacheSize) and a flush after every statement. Oracle (differential + model): every statement has the same outcome, "
            "'cache full' while the dirty set fits is a violation, the cache never exceeds its capacity, no page stays dirty after a flush, and at the end every table and both catalog tables are identical row by row including row ids; both runs also equal the reference model. "
            "One case in 25 grows one table through the third tree level (1150+ rows) with single-row work at its right edge; every small-cache statement runs under a 30 s watchdog (a statement that hangs is a violation). The small-cache run ends with a close + reopen (USE away and back) and another comparison; a 'rewrite' profile dirties the same pages in consecutive flush intervals. Non-trivial: the small-cache run re-read pages from the data file during reads (counted through the cache.set hook) on a database of at least twice the cache size; distinct by case JSON.",
    "technique": "differential property-based testing (rapid): same history under two cache configurations, plus reference model",
    "level_text": "Random differential search over histories and cache capacities; finds eviction of dirty pages, stale node pointers kept across an eviction, decode/encode drift seen end-to-end. Search, not proof.",
    "level_note": "Trusted: VerifSetCacheSize hook (replaces the LRU while nothing is dirty), the per-statement dirty-set bound (rows/4 leaves + path + catalog <= capacity, deliberately loose).",
}

PROPS["C17"] = {
    "kind": "harness", "test": "TestC17", "level": "exploration", "journal": True,
    "tiers": tiers(2500, 8, 40000, 16),
    "rule": "rapid-generated session histories of 8-60 operations over the database names d1,d2,d3,shop: CREATE DATABASE (new / existing), USE (other / current / non-existent), SHOW DATABASES, valid DDL/DML on the selected database (a table statement with nothing selected must fail), "
            "timer ticks (VerifTickAll runs flushPages on every store that owns a flush timer right now, oldest or newest first - including stores a USE left behind), clean restarts and crash restarts. "
            "Oracle: a model database per name; every operation's outcome class, storage.ShowDB() = the created names, the selected database compared after every USE / tick / statement, every database selected in turn and compared at each restart and at the end, "
            "row ids stable and never reused per database, and finally one more insert per table of every database must succeed. "
            "One case in four draws full-range values including rows of exactly 400 bytes. Database names include prefix-related ones (shop/shop2/sho, d/d1/d1x). CREATE DATABASE with a 65-255 character name (a refusal must leave nothing behind). Non-trivial: >=2 databases with data, >=2 switches, >=1 tick after a switch and >=1 restart; distinct by case JSON. Since round 12 shard 0 first runs a fixed history: 5200 rows (thorough 12000) in one flush interval, USE other, USE back, restart.",
    "technique": "stateful property-based testing (rapid) of the session layer against a per-database reference model, with the flush timers made explicit and deterministic by hooks",
    "level_text": "Random search over USE/CREATE DATABASE/restart interleavings with deterministic timer ticks. Search, not proof.",
    "level_note": "Trusted: the store registry hook (VerifTickAll does exactly what each live 100 ms timer does), lower-case database names (one file pair per lower-cased name).",
}

PROPS["C18"] = {
    "kind": "harness", "test": "TestC18", "level": "exploration", "journal": True,
    "tiers": tiers(3000, 8, 50000, 16),
    "rule": "rapid-generated cases: a session state (database selected and populated with four tables over all four column types holding NULLs, an empty table; no USE yet; failed USE; USE of an empty database; the populated database with the REAL 100 ms flush timer running and statements held open for 130 ms at a page lookup, so that ticks fall due in the middle of statements) and 5-40 statements executed through Session.ExecQuery: "
            "4 in 5 are drawn from the full statement grammar with identifiers from the same pools the schema uses, so that they resolve tables and columns and then apply AVG/COUNT/ORDER BY/comparisons/INSERT/UPDATE values to columns of arbitrary type and to NULLs, "
            "or miss, duplicate or ambiguously name columns; 1 in 5 from a list of 70 targeted statements (aggregates over VARCHAR/BOOLEAN/NULL, ORDER BY over NULLs and ambiguous keys, mistyped comparisons, catalog tables, degenerate DDL). "
            "Oracle: the call returns nil or an error within 20 s, never panics (recover), the worker never dies (journal), and the session still answers a SELECT afterwards. A low-rate 'bulk' state (700 rows in t2, whole-table statements, 511-1030 row INSERTs). The schema has 23-25 character column names; ~45 targeted statements just outside the grammar (avg(*), count(), aggregates in WHERE/ORDER BY/VALUES); one generated statement in five is mutated at token level. One statement in 40 carries a condition of 12-200 terms. Shard 0 runs one fixed idle session (5.6 s without a statement, real timer) followed by USE and DML. Non-trivial: the statement parses and the engine refuses it (an error path); distinct by (state, SQL text). Since round 11 one statement in twelve is generated over a 24-column table with lists of 4-24 elements and join chains of 3-7 tables.",
    "technique": "grammar-based fuzzing of the executor (rapid): type- and name-confused statements against NULL-bearing tables; oracle: no panic / no hang / session survives",
    "level_text": "Random search for crashing statements. Search, not proof.",
    "level_note": "A hang is declared after 20 s for one statement. Parse-level crashes are C09's business (counted here as parse-error).",
}

PROPS["C15"] = {
    "kind": "storage", "test": "TestVerifC15", "level": "exploration",
    "tiers": tiers(5000, 8, 60000, 16),
    "rule": "operation sequences over LRUCache.set (clean or already-dirty page, same or fresh page object) / get / markDirty / markClean, run against the real cache and a list-based reference model written from the property's text; after EVERY step the boolean of set, "
            "(page identity, found) of get, resident key set, recency order (read from the internal list), index/list consistency and size <= capacity are compared. (a) bounded-exhaustive: all sequences of depth 5 (thorough: 6) over capacities 1-3 with capacity+1 keys "
            "(alphabet 10-20 operations, split over the shards by first operation); (b) rapid: sequences of 20-400 operations at capacities 1-6 and 200-2000 operations at capacities 5-64. "
            "Pages are a mix of leaf and internal nodes; one random case in a hundred uses capacities 1025-2500 with run-length insertions. The reference model owns its dirty flags (compared with the page's own flag after every step); the LSN of a dirty transition varies, downwards too. Lookups come in bursts of up to 300. Keys are page offsets (uint64); scans over consecutive pages are an operation. Second part: random fetch / dirty / flush on a real file store with a 4-24 page cache; a page handed out must be the object cached for its offset, each page cached once, fetch refused only when the cache is full of dirty pages. Non-trivial: the sequence performed an eviction that had to skip a dirty entry, or an insertion that was refused; distinct by sequence JSON. Store part since round 11: flushes against a data file that refuses every write (pages that were dirty must stay dirty) and a closing read-back of every changed page from the file (stamp of its last change). Since round 12 the store part also creates / flushes a second database of the same process in between.",
    "technique": "model-based property testing (rapid) + bounded-exhaustive enumeration of operation sequences against a reference LRU",
    "level_text": "Exhaustive to depth 5/6 in small scopes, random beyond. Search, not proof.",
    "level_note": "Trusted: the reference model in the test (list with dirty flags). In-package: reads LRUCache.list and .cache directly.",
    "exhaustive_note": "all operation sequences of depth 5 (quick) / 6 (thorough) for capacities 1..3 over capacity+1 keys",
}

PROPS["C11"] = {
    "kind": "storage", "test": "TestVerifC11", "level": "exploration", "journal": True,
    "tiers": tiers(200, 8, 3000, 16, qtimeout=900),
    "rule": "rapid-generated histories of 10-120 operations through the real RelationService over 1-4 trees sharing one file: CreateTable, Insert batches of 1-40 rows with payloads of 1-390 bytes, Update, MarkDeleted, flushPages, reload (flush + empty cache), "
            "close/reopen and crash + WAL recovery; after EVERY operation a page-graph walker written from the definition checks the catalog trees and every user tree of the file: keys strictly ascending within and across leaves, every key inside the bounds given by its ancestors' separators, "
            "separators strictly ascending, all leaves at one depth, no page reachable twice over all trees, no node over capacity and every node encodes to 4096 bytes, left-to-right sibling chain = leaves in tree order = reverse of the right-to-left chain, every live key found by findCell from the root and no tombstoned one, live keys = what the history implies. "
            "Plus a fixed history of 1400 logged rows in one table with reopen and crash + recovery in between (start-up replay over a three-level tree; shard 3), and a direct BTree.insert driver: 200 000 ascending keys into the in-memory store (4 levels; shard 0), 3 000 keys on a file store with flush + cold cache between batches (shard 1; thorough: 200 000 on file, shard 2), walker run at growing intervals. "
            "One history in five runs over 7-11 trees (multi-page catalog). Tree names are chosen so that several are proper prefixes of names created earlier. Operation 'wipe': every live row of a tree deleted in one go. Non-trivial: a tree of height >= 2 with >= 3 leaves and a reload between two splits of the same tree; distinct by history JSON. Since round 11 the big-tree driver reloads right after internal splits; since round 12 one history in six runs in a sparse data file whose allocation frontier stands at 16 MiB / 2 GiB / 4 GiB.",
    "technique": "stateful property-based testing (rapid) with a structural invariant walker after every step; deterministic large-tree driver",
    "level_text": "Every reachable tree state of the generated histories is checked against the full shape invariant; deep trees (3-4 levels) are reached by the direct driver. Search, not proof.",
    "level_note": "Trusted: the walker (in-package, reads node structs). Keys ascend (engine's shared counter / WAL replay); random-order insertion is outside the property.",
}

PROPS["C19"] = {
    "kind": "csvimport", "test": "TestVerifC19", "level": "exploration",
    "tiers": tiers(6000, 8, 100000, 16),
    "rule": "rapid-generated imports run through the real makeConfig (the program's own flag variables are set from the case) / doBatchInsert / csvToSql / colDataTypes against a real RelationService: a destination table of 1-6 columns over the four types (column types read back from the real catalog), an injective list of mapped destination columns with arbitrary source indexes "
            "(repeats allowed), separator in {',', ';', tab, '|'}, 0-3 pre-existing rows, and a stream of 1-25 records built by class so that the expected outcome of each record is known by construction: valid (numbers in plain / zero-padded / signed / extreme forms, every accepted boolean spelling in any case, "
            "strings containing the separator, quotes, line feeds), \\N in a mapped field, unparsable or out-of-range value for the column type, short record, bare quote in an unquoted field, text after a closing quote, extra fields, oversize string. "
            "Oracle: exactly one ok/error event per record, in record order and of the expected kind; afterwards Fetch returns the pre-existing rows untouched followed by exactly the accepted records in input order, mapped columns holding the converted values, unmapped columns NULL. "
            "Separators include non-ASCII characters; one import in ten writes the -dest-cols/-src-cols lists with blanks after the commas (refusal allowed, a different import not). After the in-session comparison the importing program exits the way main() does (nothing flushed or closed), start-up recovery runs and the table is compared again; half of the cases run with WAL fsync disabled. String fields include byte sequences that are not UTF-8. Sign-only numbers; long runs (49-100) of malformed records inside long streams. Non-trivial: a rejected record strictly between two accepted ones and at least one \\N; distinct by case JSON.",
    "technique": "property-based testing (rapid) with record streams constructed by class against by-construction expectations (in-package, real storage)",
    "level_text": "Random search over schemas, mappings, separators and record streams. Search, not proof.",
    "level_note": "Trusted: the CSV rendering in the test (RFC 4180 quoting) and Go's encoding/csv for well-formed input. No carriage returns (the stdlib reader rewrites CRLF, which is not mkdb's doing).",
}

PROPS["C20"] = {
    "kind": "console", "test": "TestVerifC20", "level": "exploration",
    "tiers": tiers(30000, 8, 500000, 16),
    "rule": "rapid-generated console sessions fed to the real Terminal (NewTerminal / ReadLine, separate reader and writer): 1-6 statements of 1-10 tokens each ending in ';', with single- and double-quoted literals containing semicolons, the other quote character, spaces, multi-byte runes, comment openers; "
            "line breaks (CR, LF CR, CR LF, with trailing spaces, empty lines) at token boundaries and Enter pressed inside a literal (which the console turns into a space, also right after an in-literal semicolon), several statements per line or one over many lines; the byte stream is delivered bytewise (typed), in one piece (pasted), or in generated chunk sizes 1-40 that split multi-byte runes and escape sequences; "
            "1 in 6 sessions is wrapped in bracketed-paste markers. Oracle: the statements returned by successive ReadLine calls, concatenated, are exactly the entered statements, once each and in order, equal after collapsing white space outside quotes (quoted text byte for byte). "
            "Literals include non-graphic characters (zero-width joiners, soft hyphen, BOM, private use, emoji ZWJ sequences). Second part: the console PROGRAM (this test binary in a child mode calling main()) on a pseudo terminal: lines of valid and failing statements are typed, then the database it left behind must hold exactly the valid INSERTs, in order. Third part: statements corrected while typing (cursor keys, insertions) against a small model of the line editor. Non-trivial: a literal containing ';' and a statement that spans two lines or shares its line; distinct by case JSON. Since round 12 the editing part recalls statements from the history (arrow up / down), submits them again, also with text appended.",
    "technique": "property-based testing (rapid) of the terminal line discipline with a by-construction oracle (in-package main)",
    "level_text": "Random search over statement lists, layouts and read chunkings. Search, not proof.",
    "level_note": "A line break typed inside a literal becomes a space (the console's documented line joining), the oracle expects exactly that; no backslashes in literals; inputs stay below the terminal's 4096-rune line limit. ErrPasteIndicator is treated as 'line data returned' as x/term documents.",
}

PROPS["C13"] = {
    "kind": "harness", "test": "TestC13", "level": "exploration", "race": True,
    "tiers": tiers(10, 8, 60, 16, qtimeout=900, ttimeout=3000),
    "rule": "rapid-generated schedules: 6-14 statements (CREATE TABLE, INSERT, UPDATE, DELETE, SELECT) run through a Session with the REAL 100 ms flush timer in a binary built with -race; for up to 4 generated statements the verif hook parks the session goroutine for 120-350 ms (1-3 ticks) "
            "at the statement's log write (all its page changes done, log append pending) or, for statements that do not log (CREATE TABLE, SELECT), at a generated page lookup; generated idle gaps of 0-150 ms let ticks land before, inside and after statements. "
            "Oracles: (1) monitor: while a statement is parked no flush, page write or header write may happen on another goroutine; (2) every race-detector report with one side inside engine.EvaluateCreateTable/Insert/Update/Delete/Select and the other inside the flusher is a violation "
            "(other reports, e.g. USE racing the timer, are counted as out of scope); (3) table contents equal the model afterwards. One schedule in eight is a bulk schedule: 520-1100 rows, then whole-table UPDATE/DELETE/SELECT statements held open at an early page lookup. Half of the SELECTs are chains of one or two joins (several table fetches inside one bracket). One step in ten is a statement on a table that does not exist (sent through the session). One SELECT in six reads the catalog tables. Non-trivial: a DDL/DML statement was parked and the flusher demonstrably waited (it flushed within 60 ms after the park ended); distinct by schedule JSON. Since round 11 three schedules in five watch the physical log writes (VerifWrapLog): at every flusher write all bytes appended to the log must have reached the log file; two in five on a store opened without fsync through the Go API. Since round 12 one schedule in three ends with Session.Close from another goroutine (the console's signal handler) while the last statement is held open.",
    "technique": "schedule-controlled testing: generated delay injection through build-tag hooks + happens-before race detection (-race) as a sanitizer, scoped to the property",
    "level_text": "The weakest check: a few dozen harness-owned schedules; happens-before detection does not depend on the observed timing, parking makes the overlapping accesses actually occur. Interleavings the parked schedules never bring together are missed; failures do not shrink.",
    "level_note": "Wall-clock time decides only WHICH schedules are exercised, never the verdict. Trusted: the hook placement (before log writes, inside flushPages under the lock, in setCache), Go's race detector.",
    "assumptions": ["the race detector sees every conflicting access pair that actually executes without a happens-before edge"],
}

HOOK_COMMITS = ["7ca683e", "9610f73", "33713cb", "e8dcaea", "0cda325", "7eac750", "b30f8ba", "9835da3"]

NOT_APPLICABLE = {}
