// Package ref is the reference evaluator for SELECT: written from the meaning
// of the clauses, independent of mkdb's executor (engine/select.go).
package ref

import (
	"errors"
	"fmt"
	"math/big"
	"sort"

	"verif/harness/gen"
	"verif/harness/model"
)

var (
	ErrAmbiguous = errors.New("ref: column is ambiguous")
	ErrNotFound  = errors.New("ref: column not found")
	ErrNoTable   = errors.New("ref: table does not exist")
)

type Column struct {
	Table string // how the table is addressed: alias if it has one, else its name
	Name  string
}

type Rel struct {
	Cols []Column
	Rows [][]interface{}
}

func (r *Rel) resolve(qual, name string) (int, error) {
	found := -1
	for i, c := range r.Cols {
		if c.Name != name {
			continue
		}
		if qual != "" && c.Table != qual {
			continue
		}
		if found >= 0 {
			if qual == "" {
				return -1, fmt.Errorf("%w: %s", ErrAmbiguous, name)
			}
			// two columns with the same qualifier and name: same table joined
			// twice under one name - outside the modelled domain
			return -1, fmt.Errorf("%w: %s.%s", ErrAmbiguous, qual, name)
		}
		found = i
	}
	if found < 0 {
		return -1, fmt.Errorf("%w: %s.%s", ErrNotFound, qual, name)
	}
	return found, nil
}

func (r *Rel) resolver(row []interface{}) model.Resolver {
	return func(o model.Operand) (interface{}, error) {
		i, err := r.resolve(o.Qual, o.Col)
		if err != nil {
			return nil, err
		}
		return row[i], nil
	}
}

func baseRel(db *model.DB, t gen.TableRef) (*Rel, error) {
	tb, ok := db.Tables[t.Name]
	if !ok {
		return nil, ErrNoTable
	}
	r := &Rel{}
	for _, c := range tb.Cols {
		r.Cols = append(r.Cols, Column{Table: t.ID(), Name: c.Name})
	}
	for _, row := range tb.Rows {
		r.Rows = append(r.Rows, append([]interface{}{}, row.Vals...))
	}
	return r, nil
}

// condCheck resolves every column of the condition (so that name errors do
// not depend on there being rows).
func condCheck(c *model.Cond, r *Rel) error {
	if c == nil {
		return nil
	}
	for _, conj := range c.Or {
		for _, cmp := range conj {
			for _, o := range []model.Operand{cmp.L, cmp.R} {
				if o.Lit == nil {
					if _, err := r.resolve(o.Qual, o.Col); err != nil {
						return err
					}
				}
			}
		}
	}
	return nil
}

func join(l, r *Rel, j gen.Join) (*Rel, error) {
	out := &Rel{Cols: append(append([]Column{}, l.Cols...), r.Cols...)}
	merge := func(a, b []interface{}) []interface{} {
		return append(append([]interface{}{}, a...), b...)
	}
	lpad := make([]interface{}, len(l.Cols))
	rpad := make([]interface{}, len(r.Cols))
	if err := condCheck(j.On, out); err != nil && (len(l.Rows) > 0 && len(r.Rows) > 0) {
		return nil, err
	}
	rMatched := make([]bool, len(r.Rows))
	for _, lr := range l.Rows {
		matched := false
		for ri, rr := range r.Rows {
			row := merge(lr, rr)
			ok, err := model.EvalCond(j.On, out.resolver(row))
			if err != nil {
				return nil, err
			}
			if ok {
				matched = true
				rMatched[ri] = true
				out.Rows = append(out.Rows, row)
			}
		}
		if !matched && j.Type == "left" {
			out.Rows = append(out.Rows, merge(lr, rpad))
		}
	}
	if j.Type == "right" {
		for ri, rr := range r.Rows {
			if !rMatched[ri] {
				out.Rows = append(out.Rows, merge(lpad, rr))
			}
		}
	}
	return out, nil
}

// Output is the reference result of a query.
type Output struct {
	// Header: the column name the property determines for each output column -
	// the column's own name, or the alias. HeaderFree marks columns (unaliased
	// expressions, literals, aggregates) whose heading is the implementation's choice.
	HeaderFree []bool
	Header     []string
	Quals      []string // table id of plain column items ("" otherwise)
	Rows       [][]interface{}
	// ORDER BY: indexes of the key columns in the output and their direction.
	KeyIdx  []int
	KeyDesc []bool
	// rows before OFFSET/LIMIT, sorted by the keys (ties in input order)
	Full   [][]interface{}
	Offset int
	Limit  int // -1 = none
	// AVG bookkeeping for the rounding tie rule and the listed finding:
	// per output row and AVG column, the exact mean and the legacy
	// cumulative-rounded mean in input order
	Avg map[[2]int]AvgInfo
}

type AvgInfo struct {
	Sum, Count int64
	Legacy     int64 // running mean re-rounded after every row, in input order
}

// Accepts says whether v is the exact mean rounded to the nearest integer
// (either neighbour when the mean is exactly halfway).
func (a AvgInfo) Accepts(v int64) bool {
	if a.Count == 0 {
		return v == 0
	}
	lo := new(big.Int).Div(big.NewInt(a.Sum), big.NewInt(a.Count)) // floor (Euclidean for positive divisor)
	rem := new(big.Int).Mod(big.NewInt(a.Sum), big.NewInt(a.Count))
	twice := new(big.Int).Mul(rem, big.NewInt(2))
	cnt := big.NewInt(a.Count)
	switch twice.Cmp(cnt) {
	case -1:
		return v == lo.Int64()
	case 1:
		return v == lo.Int64()+1
	}
	return v == lo.Int64() || v == lo.Int64()+1
}

func roundHalfAway(x float64) int64 {
	if x < 0 {
		return -int64(-x + 0.5)
	}
	return int64(x + 0.5)
}

// Eval computes the reference meaning of q over db.
func Eval(db *model.DB, q gen.Select) (*Output, error) {
	out := &Output{Limit: -1, Avg: map[[2]int]AvgInfo{}}
	var rel *Rel
	if q.From == nil {
		rel = &Rel{Rows: [][]interface{}{{}}}
	} else {
		var err error
		rel, err = baseRel(db, *q.From)
		if err != nil {
			return nil, err
		}
		for _, j := range q.Joins {
			r, err := baseRel(db, j.Table)
			if err != nil {
				return nil, err
			}
			rel, err = join(rel, r, j)
			if err != nil {
				return nil, err
			}
		}
	}
	// WHERE
	if q.Where != nil {
		if err := condCheck(q.Where, rel); err != nil && len(rel.Rows) > 0 {
			return nil, err
		}
		var keep [][]interface{}
		for _, row := range rel.Rows {
			ok, err := model.EvalCond(q.Where, rel.resolver(row))
			if err != nil {
				return nil, err
			}
			if ok {
				keep = append(keep, row)
			}
		}
		rel.Rows = keep
	}
	// projection
	aggregate := false
	type proj struct {
		kind string
		idx  int
		it   gen.SelItem
	}
	var projs []proj
	for _, it := range q.Items {
		switch it.Kind {
		case "star":
			for i, c := range rel.Cols {
				projs = append(projs, proj{kind: "col", idx: i})
				out.Header = append(out.Header, c.Name)
				out.Quals = append(out.Quals, c.Table)
			}
			continue
		case "col":
			i, err := rel.resolve(it.Col.Qual, it.Col.Name)
			if err != nil {
				return nil, err
			}
			projs = append(projs, proj{kind: "col", idx: i, it: it})
			out.Header = append(out.Header, rel.Cols[i].Name)
			out.Quals = append(out.Quals, rel.Cols[i].Table)
		case "lit", "cond":
			if it.Kind == "cond" {
				if err := condCheck(it.Cond, rel); err != nil && len(rel.Rows) > 0 {
					return nil, err
				}
			}
			projs = append(projs, proj{kind: it.Kind, it: it})
			out.Header = append(out.Header, "?")
			out.Quals = append(out.Quals, "")
		case "count":
			aggregate = true
			p := proj{kind: "count", idx: -1, it: it}
			name := "count(*)"
			if it.Col != nil {
				i, err := rel.resolve(it.Col.Qual, it.Col.Name)
				if err != nil {
					return nil, err
				}
				p.idx = i
				name = "count(" + it.Col.String() + ")"
			}
			projs = append(projs, p)
			out.Header = append(out.Header, name)
			out.Quals = append(out.Quals, "")
		case "avg":
			aggregate = true
			i, err := rel.resolve(it.Col.Qual, it.Col.Name)
			if err != nil {
				return nil, err
			}
			projs = append(projs, proj{kind: "avg", idx: i, it: it})
			out.Header = append(out.Header, "avg("+it.Col.String()+")")
			out.Quals = append(out.Quals, "")
		}
		if it.Alias != "" {
			out.Header[len(out.Header)-1] = it.Alias
		}
	}
	for _, p := range projs {
		free := p.kind != "col" && p.it.Alias == ""
		out.HeaderFree = append(out.HeaderFree, free)
	}
	project := func(row []interface{}) ([]interface{}, error) {
		var o []interface{}
		for _, p := range projs {
			switch p.kind {
			case "col":
				o = append(o, row[p.idx])
			case "lit":
				o = append(o, p.it.Lit.Go())
			case "cond":
				v, err := model.EvalCond(p.it.Cond, rel.resolver(row))
				if err != nil {
					return nil, err
				}
				o = append(o, v)
			default:
				o = append(o, nil)
			}
		}
		return o, nil
	}
	var rows [][]interface{}
	if !aggregate {
		for _, row := range rel.Rows {
			o, err := project(row)
			if err != nil {
				return nil, err
			}
			rows = append(rows, o)
		}
	} else {
		// grouping columns: positions (in the projection) named by GROUP BY
		var gidx []int
		for _, g := range q.GroupBy {
			found := -1
			for pi, p := range projs {
				if p.kind != "col" {
					continue
				}
				c := p.it.Col
				match := (c.Name == g.Name && (g.Qual == "" || g.Qual == c.Qual)) || (p.it.Alias != "" && g.Qual == "" && p.it.Alias == g.Name)
				if match {
					found = pi
					break
				}
			}
			if found < 0 {
				return nil, fmt.Errorf("ref: GROUP BY column %s is not in the select list (outside the modelled domain)", g)
			}
			gidx = append(gidx, found)
		}
		type group struct {
			first []interface{}
			rows  [][]interface{}
		}
		var groups []*group
		find := func(o []interface{}) *group {
			for _, g := range groups {
				same := true
				for _, gi := range gidx {
					if !model.GoEqual(g.first[gi], o[gi]) {
						same = false
						break
					}
				}
				if same {
					return g
				}
			}
			return nil
		}
		for _, row := range rel.Rows {
			o, err := project(row)
			if err != nil {
				return nil, err
			}
			g := find(o)
			if g == nil {
				g = &group{first: o}
				groups = append(groups, g)
			}
			g.rows = append(g.rows, row)
		}
		if len(q.GroupBy) == 0 && len(groups) == 0 {
			groups = append(groups, &group{first: make([]interface{}, len(projs))})
		}
		for _, g := range groups {
			o := append([]interface{}{}, g.first...)
			for pi, p := range projs {
				switch p.kind {
				case "count":
					n := int64(0)
					for _, r := range g.rows {
						if p.idx < 0 || r[p.idx] != nil {
							n++
						}
					}
					o[pi] = n
				case "avg":
					info := AvgInfo{}
					for _, r := range g.rows {
						v, ok := r[p.idx].(int64)
						if !ok {
							return nil, fmt.Errorf("ref: AVG over a non-integer or NULL value (outside the modelled domain)")
						}
						info.Legacy = roundHalfAway(float64(info.Legacy*info.Count+v) / float64(info.Count+1))
						info.Sum += v
						info.Count++
					}
					out.Avg[[2]int{len(rows), pi}] = info
					o[pi] = info // placeholder, compared through Accepts
				}
			}
			rows = append(rows, o)
		}
	}
	// ORDER BY over the output columns
	for _, k := range q.OrderBy {
		found := -1
		for i, h := range out.Header {
			if h != k.Col.Name {
				continue
			}
			if k.Col.Qual != "" && out.Quals[i] != k.Col.Qual {
				continue
			}
			if found >= 0 {
				return nil, fmt.Errorf("%w: sort key %s", ErrAmbiguous, k.Col)
			}
			found = i
		}
		if found < 0 {
			return nil, fmt.Errorf("%w: sort key %s", ErrNotFound, k.Col)
		}
		out.KeyIdx = append(out.KeyIdx, found)
		out.KeyDesc = append(out.KeyDesc, k.Dir == "desc")
	}
	if len(out.KeyIdx) > 0 {
		var serr error
		sort.SliceStable(rows, func(i, j int) bool {
			for n, ki := range out.KeyIdx {
				a, b := rows[i][ki], rows[j][ki]
				if model.GoEqual(a, b) {
					continue
				}
				less, err := lessVal(a, b)
				if err != nil {
					serr = err
					return false
				}
				if out.KeyDesc[n] {
					return !less
				}
				return less
			}
			return false
		})
		if serr != nil {
			return nil, serr
		}
	}
	out.Full = rows
	start, end := 0, len(rows)
	if q.Offset != nil {
		out.Offset = *q.Offset
		start = *q.Offset
		if start > len(rows) {
			start = len(rows)
		}
	}
	if q.Limit != nil {
		out.Limit = *q.Limit
		if *q.Limit < end-start { // (not start+limit: that overflows for LIMIT <largest integer>)
			end = start + *q.Limit
		}
	}
	out.Rows = rows[start:end]
	return out, nil
}

func lessVal(a, b interface{}) (bool, error) {
	switch x := a.(type) {
	case int64:
		if y, ok := b.(int64); ok {
			return x < y, nil
		}
	case string:
		if y, ok := b.(string); ok {
			return x < y, nil
		}
	case bool:
		if y, ok := b.(bool); ok {
			return !x && y, nil
		}
	}
	return false, fmt.Errorf("ref: ordering %T against %T is outside the modelled domain", a, b)
}
