// Package model is a deliberately boring in-memory reference database. It knows
// nothing about pages, LSNs, logs or caches; it is written from the meaning of
// the SQL statements, not from mkdb's executor.
package model

import (
	"encoding/json"
	"fmt"
	"math"
	"sort"
	"strings"
)

// ---------------------------------------------------------------- values

type ColType int

const (
	TInt ColType = iota
	TVarchar
	TBool
	TBigInt
)

func (t ColType) SQL(n int) string {
	switch t {
	case TInt:
		return "INT"
	case TVarchar:
		return fmt.Sprintf("VARCHAR(%d)", n)
	case TBool:
		return "BOOLEAN"
	case TBigInt:
		return "BIGINT"
	}
	return "?"
}

// Val is a JSON-friendly SQL value. T: "i" integer, "s" text string, "x" byte
// string (any bytes, base64 in JSON), "b" boolean, "n" NULL.
type Val struct {
	T string `json:"t"`
	I int64  `json:"i,omitempty"`
	S string `json:"s,omitempty"`
	X []byte `json:"x,omitempty"`
	B bool   `json:"b,omitempty"`
}

func Int(i int64) Val    { return Val{T: "i", I: i} }
func Str(s string) Val   { return Val{T: "s", S: s} }
func Bytes(b []byte) Val { return Val{T: "x", X: b} }
func Bool(b bool) Val    { return Val{T: "b", B: b} }
func Null() Val          { return Val{T: "n"} }

// Go returns the value the way mkdb represents it: int64, string, bool or nil.
func (v Val) Go() interface{} {
	switch v.T {
	case "i":
		return v.I
	case "s":
		return v.S
	case "x":
		return string(v.X)
	case "b":
		return v.B
	case "u": // a Go value of a kind mkdb does not store: unsigned 64-bit (bit pattern in I)
		return uint64(v.I)
	case "f":
		return float64(v.I) + 0.5
	}
	return nil
}

// Uint and Float build values of Go kinds no column type takes (wrong-typed
// for every column; only expressible as direct statement values).
func Uint(u uint64) Val { return Val{T: "u", I: int64(u)} }
func Float(i int64) Val { return Val{T: "f", I: i} }

func FromGo(x interface{}) Val {
	switch x := x.(type) {
	case int64:
		return Int(x)
	case string:
		return Bytes([]byte(x))
	case bool:
		return Bool(x)
	case nil:
		return Null()
	}
	panic(fmt.Sprintf("unsupported value %T", x))
}

func (v Val) IsNull() bool { return v.T == "n" || v.T == "" }

// SQL renders the value as a literal of mkdb's dialect. Only text-safe values
// can be rendered (see gen).
func (v Val) SQL() string {
	switch v.T {
	case "i":
		return fmt.Sprint(v.I)
	case "s":
		return "'" + v.S + "'"
	case "b":
		if v.B {
			return "true"
		}
		return "false"
	}
	panic("value has no SQL literal: " + v.T)
}

func (v Val) String() string {
	switch v.T {
	case "i":
		return fmt.Sprint(v.I)
	case "s":
		return fmt.Sprintf("%q", v.S)
	case "x":
		return fmt.Sprintf("%q", string(v.X))
	case "b":
		return fmt.Sprint(v.B)
	}
	return "NULL"
}

// GoEqual compares two Go-side values (int64/string/bool/nil) exactly.
func GoEqual(a, b interface{}) bool {
	switch a := a.(type) {
	case nil:
		return b == nil
	case int64:
		bb, ok := b.(int64)
		return ok && a == bb
	case string:
		bb, ok := b.(string)
		return ok && a == bb
	case bool:
		bb, ok := b.(bool)
		return ok && a == bb
	}
	return false
}

func GoString(a interface{}) string {
	switch a := a.(type) {
	case nil:
		return "NULL"
	case string:
		return fmt.Sprintf("%q", a)
	}
	return fmt.Sprintf("%v", a)
}

func RowString(r []interface{}) string {
	var sb strings.Builder
	sb.WriteByte('(')
	for i, v := range r {
		if i > 0 {
			sb.WriteString(", ")
		}
		sb.WriteString(GoString(v))
	}
	sb.WriteByte(')')
	return sb.String()
}

// ---------------------------------------------------------------- schema

type Col struct {
	Name string  `json:"name"`
	Type ColType `json:"type"`
	Len  int     `json:"len,omitempty"`
}

type Row struct {
	Seq  int           // model-side identity: global insertion sequence number
	Vals []interface{} // int64 | string | bool | nil, one per column
}

type Table struct {
	Name string
	Cols []Col
	Rows []*Row
}

func (t *Table) ColIdx(name string) int {
	for i, c := range t.Cols {
		if c.Name == name {
			return i
		}
	}
	return -1
}

type DB struct {
	dry    bool // UpdateVerdict in progress: validate, do not commit
	Tables map[string]*Table
	Order  []string // creation order
	seq    int
}

func NewDB() *DB { return &DB{Tables: map[string]*Table{}} }

func (d *DB) Clone() *DB {
	c := &DB{Tables: map[string]*Table{}, Order: append([]string{}, d.Order...), seq: d.seq}
	for n, t := range d.Tables {
		nt := &Table{Name: t.Name, Cols: append([]Col{}, t.Cols...)}
		for _, r := range t.Rows {
			nt.Rows = append(nt.Rows, &Row{Seq: r.Seq, Vals: append([]interface{}{}, r.Vals...)})
		}
		c.Tables[n] = nt
	}
	return c
}

// ---------------------------------------------------------------- errors

// ErrKind classifies why a statement must be refused.
type ErrKind string

const (
	OK             ErrKind = ""
	ErrNoTable     ErrKind = "unknown table"
	ErrTableExists ErrKind = "table exists"
	ErrColCount    ErrKind = "column count mismatch"
	ErrType        ErrKind = "type mismatch"
	ErrIntRange    ErrKind = "integer out of range"
	ErrRowTooLarge ErrKind = "row too large"
)

const MaxRowBytes = 400

// EncodedSize is the size of a row in mkdb's documented row format: one null
// marker byte per column plus the payload (INT 4, BIGINT 8, BOOLEAN 1,
// VARCHAR 4 + length).
func EncodedSize(cols []Col, vals []interface{}) int {
	n := 0
	for i, c := range cols {
		n++
		if vals[i] == nil {
			continue
		}
		switch c.Type {
		case TInt:
			n += 4
		case TBigInt:
			n += 8
		case TBool:
			n++
		case TVarchar:
			n += 4 + len(vals[i].(string))
		}
	}
	return n
}

// ValidateValue says whether v may be stored in a column of type t.
func ValidateValue(t ColType, v interface{}) ErrKind {
	if v == nil {
		return OK
	}
	switch t {
	case TInt:
		i, ok := v.(int64)
		if !ok {
			return ErrType
		}
		if i > math.MaxInt32 || i < math.MinInt32 {
			return ErrIntRange
		}
	case TBigInt:
		if _, ok := v.(int64); !ok {
			return ErrType
		}
	case TVarchar:
		if _, ok := v.(string); !ok {
			return ErrType
		}
	case TBool:
		if _, ok := v.(bool); !ok {
			return ErrType
		}
	}
	return OK
}

// ---------------------------------------------------------------- statements

// Operand of a comparison: a column reference or a literal.
type Operand struct {
	Col  string `json:"col,omitempty"`
	Qual string `json:"qual,omitempty"`
	Lit  *Val   `json:"lit,omitempty"`
}

type Cmp struct {
	L  Operand `json:"l"`
	Op string  `json:"op"` // = != < <= > >=
	R  Operand `json:"r"`
}

// Cond is a disjunction of conjunctions: AND binds tighter than OR.
type Cond struct {
	Or [][]Cmp `json:"or"`
}

type Assign struct {
	Col string `json:"col"`
	Val Val    `json:"val"`
}

// Stmt is one DDL/DML statement in structured form plus its SQL text.
type Stmt struct {
	Kind    string   `json:"kind"` // create | insert | update | delete
	Table   string   `json:"table"`
	Cols    []Col    `json:"cols,omitempty"`    // create
	InsCols []string `json:"inscols,omitempty"` // insert column list ([] = none)
	Rows    [][]Val  `json:"rows,omitempty"`    // insert
	Set     []Assign `json:"set,omitempty"`     // update
	Where   *Cond    `json:"where,omitempty"`   // update, delete
	SQL     string   `json:"sql,omitempty"`     // rendered text; empty = execute as direct statement values
	// harness directives attached to the statement
	FlushAfter bool `json:"flush,omitempty"`
	// Fails: the statement is invalid on purpose (an oversize or mistyped row);
	// it must be refused, it is not applied to the model and changes nothing
	Fails bool `json:"fails,omitempty"`
}

func (s Stmt) String() string {
	if s.SQL != "" {
		return s.SQL
	}
	b, _ := json.Marshal(s)
	return "direct:" + string(b)
}

// CmpVals applies op to two non-NULL values of the same kind.
func CmpVals(a interface{}, op string, b interface{}) (bool, error) {
	if a == nil || b == nil {
		if op == "=" && (a != nil || b != nil) {
			// equality between a value and NULL is never true (in SQL it is unknown,
			// which filters and joins treat like false). NULL = NULL and every other
			// operator on NULL stay outside the modelled domain.
			return false, nil
		}
		return false, fmt.Errorf("model: comparison with NULL is outside the modelled domain")
	}
	if (op == "=" || op == "!=") && fmt.Sprintf("%T", a) != fmt.Sprintf("%T", b) {
		// values of different types are never equal, whatever they look like when printed
		return op == "!=", nil
	}
	var c int
	switch x := a.(type) {
	case int64:
		y, ok := b.(int64)
		if !ok {
			return false, fmt.Errorf("model: ill-typed comparison %T %s %T", a, op, b)
		}
		switch {
		case x < y:
			c = -1
		case x > y:
			c = 1
		}
	case string:
		y, ok := b.(string)
		if !ok {
			return false, fmt.Errorf("model: ill-typed comparison %T %s %T", a, op, b)
		}
		c = strings.Compare(x, y)
	case bool:
		y, ok := b.(bool)
		if !ok {
			return false, fmt.Errorf("model: ill-typed comparison %T %s %T", a, op, b)
		}
		if op != "=" && op != "!=" {
			return false, fmt.Errorf("model: ordering comparison on booleans is outside the modelled domain")
		}
		if x != y {
			c = 1
		}
	}
	switch op {
	case "=":
		return c == 0, nil
	case "!=":
		return c != 0, nil
	case "<":
		return c < 0, nil
	case "<=":
		return c <= 0, nil
	case ">":
		return c > 0, nil
	case ">=":
		return c >= 0, nil
	}
	return false, fmt.Errorf("model: unknown operator %q", op)
}

// Resolver maps a column operand to a value for the current row.
type Resolver func(o Operand) (interface{}, error)

func EvalCond(c *Cond, res Resolver) (bool, error) {
	if c == nil {
		return true, nil
	}
	for _, conj := range c.Or {
		all := true
		for _, cmp := range conj {
			l, err := evalOperand(cmp.L, res)
			if err != nil {
				return false, err
			}
			r, err := evalOperand(cmp.R, res)
			if err != nil {
				return false, err
			}
			ok, err := CmpVals(l, cmp.Op, r)
			if err != nil {
				return false, err
			}
			if !ok {
				all = false
				// keep evaluating: SQL has no short-circuit guarantee, and an
				// ill-typed later comparison must surface in the model too
			}
		}
		if all {
			return true, nil
		}
	}
	return false, nil
}

func evalOperand(o Operand, res Resolver) (interface{}, error) {
	if o.Lit != nil {
		return o.Lit.Go(), nil
	}
	return res(o)
}

func (t *Table) rowResolver(r *Row) Resolver {
	return func(o Operand) (interface{}, error) {
		i := t.ColIdx(o.Col)
		if i < 0 {
			return nil, fmt.Errorf("model: unknown column %s", o.Col)
		}
		return r.Vals[i], nil
	}
}

// Apply executes the statement on the model. It returns the reason the
// statement must be refused (and leaves the model untouched), or OK.
// UpdateVerdict is what Apply would answer for an UPDATE, without applying it.
func (d *DB) UpdateVerdict(s Stmt) (ErrKind, error) {
	if s.Kind != "update" {
		return "", fmt.Errorf("model: UpdateVerdict of a %s statement", s.Kind)
	}
	d.dry = true
	defer func() { d.dry = false }()
	return d.Apply(s)
}

func (d *DB) Apply(s Stmt) (ErrKind, error) {
	switch s.Kind {
	case "use":
		// USE of the database that is selected already (whatever the letter case): changes nothing
		return OK, nil
	case "create":
		if _, ok := d.Tables[s.Table]; ok {
			return ErrTableExists, nil
		}
		// the catalog stores one row per table (name, root offset) and one per
		// column (table name, column name, type, length as INT): the same
		// value rules apply to them as to any other row
		if 1+4+len(s.Table)+1+8 > MaxRowBytes {
			return ErrRowTooLarge, nil
		}
		for _, c := range s.Cols {
			if c.Len > math.MaxInt32 || c.Len < math.MinInt32 {
				return ErrIntRange, nil
			}
			if 1+4+len(s.Table)+1+4+len(c.Name)+1+4+1+4 > MaxRowBytes {
				return ErrRowTooLarge, nil
			}
		}
		d.Tables[s.Table] = &Table{Name: s.Table, Cols: append([]Col{}, s.Cols...)}
		d.Order = append(d.Order, s.Table)
		return OK, nil
	case "insert":
		t, ok := d.Tables[s.Table]
		if !ok {
			return ErrNoTable, nil
		}
		var newRows []*Row
		for _, r := range s.Rows {
			vals := make([]interface{}, len(t.Cols))
			cols := s.InsCols
			if len(cols) == 0 {
				for _, c := range t.Cols {
					cols = append(cols, c.Name)
				}
			}
			if len(cols) != len(r) {
				return ErrColCount, nil
			}
			for i, cn := range cols {
				ci := t.ColIdx(cn)
				if ci < 0 {
					return "", fmt.Errorf("model: insert names unknown column %s (outside the modelled domain)", cn)
				}
				vals[ci] = r[i].Go()
			}
			for ci, c := range t.Cols {
				if k := ValidateValue(c.Type, vals[ci]); k != OK {
					return k, nil
				}
			}
			if EncodedSize(t.Cols, vals) > MaxRowBytes {
				return ErrRowTooLarge, nil
			}
			newRows = append(newRows, &Row{Vals: vals})
		}
		for _, r := range newRows {
			d.seq++
			r.Seq = d.seq
			t.Rows = append(t.Rows, r)
		}
		return OK, nil
	case "update":
		t, ok := d.Tables[s.Table]
		if !ok {
			return ErrNoTable, nil
		}
		type change struct {
			r    *Row
			vals []interface{}
		}
		var changes []change
		for _, r := range t.Rows {
			m, err := EvalCond(s.Where, t.rowResolver(r))
			if err != nil {
				return "", err
			}
			if !m {
				continue
			}
			vals := append([]interface{}{}, r.Vals...)
			for _, a := range s.Set {
				ci := t.ColIdx(a.Col)
				if ci < 0 {
					return "", fmt.Errorf("model: update names unknown column %s (outside the modelled domain)", a.Col)
				}
				vals[ci] = a.Val.Go()
			}
			for ci, c := range t.Cols {
				if k := ValidateValue(c.Type, vals[ci]); k != OK {
					return k, nil
				}
			}
			if EncodedSize(t.Cols, vals) > MaxRowBytes {
				return ErrRowTooLarge, nil
			}
			changes = append(changes, change{r, vals})
		}
		if d.dry {
			return OK, nil
		}
		for _, c := range changes {
			c.r.Vals = c.vals
		}
		return OK, nil
	case "delete":
		t, ok := d.Tables[s.Table]
		if !ok {
			return ErrNoTable, nil
		}
		var keep []*Row
		for _, r := range t.Rows {
			m, err := EvalCond(s.Where, t.rowResolver(r))
			if err != nil {
				return "", err
			}
			if !m {
				keep = append(keep, r)
			}
		}
		t.Rows = keep
		return OK, nil
	}
	return "", fmt.Errorf("model: unknown statement kind %q", s.Kind)
}

// Matches returns the rows of table t matching the condition (model order).
func (t *Table) Matches(c *Cond) ([]*Row, error) {
	var out []*Row
	for _, r := range t.Rows {
		m, err := EvalCond(c, t.rowResolver(r))
		if err != nil {
			return nil, err
		}
		if m {
			out = append(out, r)
		}
	}
	return out, nil
}

// TableNames in creation order.
func (d *DB) TableNames() []string { return append([]string{}, d.Order...) }

// SortedTableNames is for deterministic iteration independent of creation order.
func (d *DB) SortedTableNames() []string {
	n := append([]string{}, d.Order...)
	sort.Strings(n)
	return n
}

// RowOps is the number of row operations statement s performs in the current
// state: rows of an INSERT, matching rows of an UPDATE or DELETE.
func (d *DB) RowOps(s Stmt) (int, error) {
	switch s.Kind {
	case "insert":
		return len(s.Rows), nil
	case "update", "delete":
		t, ok := d.Tables[s.Table]
		if !ok {
			return 0, fmt.Errorf("model: no table %s", s.Table)
		}
		m, err := t.Matches(s.Where)
		return len(m), err
	}
	return 0, nil
}

// ApplyPrefix applies only the first r row operations of s, in the order the
// statement applies them (INSERT: listed order; UPDATE/DELETE: table order).
func (d *DB) ApplyPrefix(s Stmt, r int) error {
	switch s.Kind {
	case "insert":
		p := s
		p.Rows = s.Rows[:r]
		if len(p.Rows) == 0 {
			return nil
		}
		k, err := d.Apply(p)
		if err != nil || k != OK {
			return fmt.Errorf("model: prefix not applicable: %v %v", k, err)
		}
		return nil
	case "update", "delete":
		t := d.Tables[s.Table]
		matches, err := t.Matches(s.Where)
		if err != nil {
			return err
		}
		if r > len(matches) {
			return fmt.Errorf("model: prefix %d exceeds %d matches", r, len(matches))
		}
		sel := map[*Row]bool{}
		for _, m := range matches[:r] {
			sel[m] = true
		}
		if s.Kind == "delete" {
			var keep []*Row
			for _, row := range t.Rows {
				if !sel[row] {
					keep = append(keep, row)
				}
			}
			t.Rows = keep
			return nil
		}
		for _, row := range t.Rows {
			if !sel[row] {
				continue
			}
			for _, a := range s.Set {
				row.Vals[t.ColIdx(a.Col)] = a.Val.Go()
			}
		}
		return nil
	}
	return fmt.Errorf("model: no prefix semantics for %s", s.Kind)
}

// ---------------------------------------------------------------- (de)serialisation

type DumpTable struct {
	Name string  `json:"name"`
	Cols []Col   `json:"cols"`
	Rows [][]Val `json:"rows"`
	Seqs []int   `json:"seqs"`
}

// Dump serialises the model (for child processes and replay files).
func (d *DB) Dump() []DumpTable {
	var out []DumpTable
	for _, n := range d.Order {
		t := d.Tables[n]
		dt := DumpTable{Name: n, Cols: t.Cols, Rows: [][]Val{}}
		for _, r := range t.Rows {
			var row []Val
			for _, v := range r.Vals {
				row = append(row, FromGo(v))
			}
			dt.Rows = append(dt.Rows, row)
			dt.Seqs = append(dt.Seqs, r.Seq)
		}
		out = append(out, dt)
	}
	return out
}

func LoadDump(dts []DumpTable) *DB {
	d := NewDB()
	for _, dt := range dts {
		t := &Table{Name: dt.Name, Cols: dt.Cols}
		for i, row := range dt.Rows {
			r := &Row{}
			if i < len(dt.Seqs) {
				r.Seq = dt.Seqs[i]
			}
			for _, v := range row {
				r.Vals = append(r.Vals, v.Go())
			}
			t.Rows = append(t.Rows, r)
			if r.Seq > d.seq {
				d.seq = r.Seq
			}
		}
		d.Tables[dt.Name] = t
		d.Order = append(d.Order, dt.Name)
	}
	return d
}
