// Package mk adapts the real mkdb (engine, sql, storage with the verif hooks)
// to the harness: open a database directory, execute statements given as text
// or as direct statement values, read tables back, flush, crash, recover.
package mk

import (
	"bytes"
	"fmt"
	"os"
	"path/filepath"
	"reflect"
	"runtime/debug"
	"strings"
	"syscall"
	"text/tabwriter"

	"github.com/mk6i/mkdb/engine"
	"github.com/mk6i/mkdb/sql"
	"github.com/mk6i/mkdb/storage"

	"verif/harness/model"
)

func init() {
	// every check except C13 owns the flush schedule
	storage.VerifNoTimer = true
}

// ParseSQL is engine.parseSQL restated (it is unexported): scanner -> token
// list -> parser.
func ParseSQL(q string) (interface{}, error) {
	ts := sql.NewTokenScanner(strings.NewReader(q))
	tl := sql.TokenList{}
	for ts.Next() {
		tl.Add(ts.Cur())
	}
	p := sql.Parser{TokenList: tl}
	return p.Parse()
}

// Engine is one simulated mkdb process working in a private directory.
type Engine struct {
	Dir  string
	Sess *engine.Session
	// the rows of the last few SELECTs exactly as the executor handed them out (not copied), each next
	// to a copy taken at once: a result belongs to the caller, later statements must not change it
	kept []keptResult
}

type keptResult struct {
	sql  string
	raw  []*storage.Row
	snap [][]interface{}
	ids  []uint32
}

// ErrResultChanged: the rows an earlier SELECT returned were altered by a later statement.
var ErrResultChanged = fmt.Errorf("the rows returned by an earlier SELECT were changed by a later statement")

func (e *Engine) checkKept(now string) error {
	for _, k := range e.kept {
		for i, r := range k.raw {
			same := len(r.Vals) == len(k.snap[i]) && r.RowID == k.ids[i]
			for j := 0; same && j < len(r.Vals); j++ {
				same = reflect.DeepEqual(r.Vals[j], k.snap[i][j])
			}
			if !same {
				return fmt.Errorf("%w: row %d of the result of %q read %v (row id %d) when it was returned and reads %v (row id %d) after %q", ErrResultChanged, i, k.sql, k.snap[i], k.ids[i], r.Vals, r.RowID, now)
			}
		}
	}
	return nil
}

// FreshDir empties (or creates) dir and makes it the working directory:
// storage uses the relative path "data".
func FreshDir(dir string) error {
	if err := os.RemoveAll(dir); err != nil {
		return err
	}
	if err := os.MkdirAll(dir, 0755); err != nil {
		return err
	}
	return os.Chdir(dir)
}

// Guard runs f and converts a panic into an error carrying the stack.
func Guard(f func() error) (err error) {
	defer func() {
		if r := recover(); r != nil {
			err = &PanicError{Val: r, Stack: string(debug.Stack())}
		}
	}()
	return f()
}

type PanicError struct {
	Val   interface{}
	Stack string
}

func (p *PanicError) Error() string { return fmt.Sprintf("PANIC: %v\n%s", p.Val, p.Stack) }

func IsPanic(err error) bool {
	_, ok := err.(*PanicError)
	return ok
}

// Start performs what the console does at process start: chdir into dir, run
// recovery (InitStorage) and create a session.
func Start(dir string) (*Engine, error) {
	if err := os.Chdir(dir); err != nil {
		return nil, err
	}
	if err := Guard(storage.InitStorage); err != nil {
		return nil, fmt.Errorf("InitStorage: %w", err)
	}
	return &Engine{Dir: dir, Sess: &engine.Session{}}, nil
}

// Exec runs one SQL text through the session, exactly as the console does.
func (e *Engine) Exec(q string) error {
	return Guard(func() error { return e.Sess.ExecQuery(q) })
}

func (e *Engine) RS() *storage.RelationService { return e.Sess.RelationService }

// Result of a SELECT.
type Result struct {
	Header []string
	Quals  []string
	Rows   [][]interface{}
	IDs    []uint32
}

// Query parses q and evaluates it with the real executor, returning rows.
func (e *Engine) Query(q string) (*Result, error) {
	var res *Result
	err := Guard(func() error {
		stmt, err := ParseSQL(q)
		if err != nil {
			return fmt.Errorf("parse: %w", err)
		}
		sel, ok := stmt.(sql.Select)
		if !ok {
			return fmt.Errorf("not a SELECT: %T", stmt)
		}
		if e.Sess.RelationService == nil {
			return fmt.Errorf("no database selected")
		}
		rows, fields, err := engine.EvaluateSelect(sel, e.Sess.RelationService)
		if err != nil {
			return err
		}
		if err := e.checkKept(q); err != nil {
			return err
		}
		if len(rows) <= 64 {
			k := keptResult{sql: q, raw: rows}
			for _, r := range rows {
				k.snap = append(k.snap, append([]interface{}{}, r.Vals...))
				k.ids = append(k.ids, r.RowID)
			}
			if e.kept = append(e.kept, k); len(e.kept) > 3 {
				e.kept = e.kept[1:]
			}
		}
		res = &Result{}
		for _, f := range fields {
			res.Header = append(res.Header, fmt.Sprint(f.Column))
			res.Quals = append(res.Quals, f.TableID)
		}
		for _, r := range rows {
			res.Rows = append(res.Rows, append([]interface{}{}, r.Vals...))
			res.IDs = append(res.IDs, r.RowID)
		}
		return nil
	})
	return res, err
}

// ---- direct statement values (the route csvimport uses): hand-built ASTs

func ToCompOp(op string) sql.TokenType {
	switch op {
	case "=":
		return sql.EQ
	case "!=":
		return sql.NEQ
	case "<":
		return sql.LT
	case "<=":
		return sql.LTE
	case ">":
		return sql.GT
	case ">=":
		return sql.GTE
	}
	panic("bad op " + op)
}

func operandAST(o model.Operand) interface{} {
	if o.Lit != nil {
		return o.Lit.Go()
	}
	return sql.ColumnReference{Qualifier: o.Qual, ColumnName: o.Col}
}

// CondAST builds the parser's representation of an OR-of-ANDs condition, with
// the right-nested shape the parser produces.
func CondAST(c *model.Cond) interface{} {
	var conj func(cs []model.Cmp) interface{}
	pred := func(c model.Cmp) sql.Predicate {
		return sql.Predicate{ComparisonPredicate: sql.ComparisonPredicate{LHS: operandAST(c.L), CompOp: ToCompOp(c.Op), RHS: operandAST(c.R)}}
	}
	conj = func(cs []model.Cmp) interface{} {
		if len(cs) == 1 {
			return pred(cs[0])
		}
		return sql.BooleanTerm{LHS: pred(cs[0]), RHS: conj(cs[1:])}
	}
	var disj func(ds [][]model.Cmp) interface{}
	disj = func(ds [][]model.Cmp) interface{} {
		if len(ds) == 1 {
			return conj(ds[0])
		}
		return sql.SearchCondition{LHS: conj(ds[0]), RHS: disj(ds[1:])}
	}
	return disj(c.Or)
}

func whereAST(c *model.Cond) interface{} {
	if c == nil {
		return nil
	}
	return sql.WhereClause{SearchCondition: CondAST(c)}
}

func InsertAST(s model.Stmt) sql.InsertStatement {
	var tvc sql.TableValueConstructor
	for _, r := range s.Rows {
		var rvc sql.RowValueConstructor
		for _, v := range r {
			rvc.RowValueConstructorList = append(rvc.RowValueConstructorList, v.Go())
		}
		tvc.TableValueConstructorList = append(tvc.TableValueConstructorList, rvc)
	}
	return sql.InsertStatement{
		TableName: s.Table,
		InsertColumnsAndSource: sql.InsertColumnsAndSource{
			InsertColumnList: sql.InsertColumnList{ColumnNames: s.InsCols},
			QueryExpression:  tvc,
		},
	}
}

func UpdateAST(s model.Stmt) sql.UpdateStatementSearched {
	u := sql.UpdateStatementSearched{TableName: s.Table, Where: whereAST(s.Where)}
	for _, a := range s.Set {
		u.Set = append(u.Set, sql.SetClause{ObjectColumn: a.Col, UpdateSource: a.Val.Go()})
	}
	return u
}

func DeleteAST(s model.Stmt) sql.DeleteStatementSearched {
	return sql.DeleteStatementSearched{TableName: s.Table, WhereClause: whereAST(s.Where)}
}

// ExecStmt executes a model statement: as SQL text through the session when it
// has text, else as direct statement values through the engine's Evaluate*
// entry points (negative numbers and arbitrary bytes cannot be written as
// literals in this dialect).
func (e *Engine) ExecStmt(s model.Stmt) error {
	if s.SQL != "" {
		return e.Exec(s.SQL)
	}
	return Guard(func() error {
		rs := e.Sess.RelationService
		if rs == nil {
			return fmt.Errorf("no database selected")
		}
		switch s.Kind {
		case "insert":
			_, err := engine.EvaluateInsert(InsertAST(s), rs)
			return err
		case "update":
			return engine.EvaluateUpdate(UpdateAST(s), rs)
		case "delete":
			_, err := engine.EvaluateDelete(DeleteAST(s), rs)
			return err
		}
		return fmt.Errorf("no direct form for %s", s.Kind)
	})
}

// Flush is one tick of the flush timer of the selected database.
func (e *Engine) Flush() error {
	if e.Sess.RelationService == nil {
		return nil
	}
	return Guard(e.Sess.RelationService.VerifFlush)
}

// Shutdown is a clean process exit (the console's signal handler).
func (e *Engine) Shutdown() error {
	return Guard(e.Sess.Close)
}

// Crash is process death of this engine: its store is abandoned without
// flushing. Stores the session leaked (a USE that did not close the previous
// one) die with the process too when all is set.
func (e *Engine) Crash(all bool) {
	if e.Sess.RelationService != nil {
		e.Sess.RelationService.VerifAbandon()
		e.Sess.RelationService = nil
	}
	if all {
		storage.VerifAbandonAll()
	}
}

// CopyDataDir copies <src>/data to <dst>/data (crash image).
func CopyDataDir(src, dst string) error {
	return filepath.Walk(filepath.Join(src, "data"), func(p string, info os.FileInfo, err error) error {
		if err != nil {
			return err
		}
		rel, _ := filepath.Rel(src, p)
		target := filepath.Join(dst, rel)
		if info.IsDir() {
			return os.MkdirAll(target, 0755)
		}
		b, err := os.ReadFile(p)
		if err != nil {
			return err
		}
		return os.WriteFile(target, b, 0644)
	})
}

// ExecCapture runs q through Session.ExecQuery - the console's own route, which
// only PRINTS the result of a SELECT - and returns what it wrote to standard
// output (file descriptor 1 is pointed at a scratch file for the duration).
func (e *Engine) ExecCapture(q string, scratch string) (string, error) {
	f, err := os.OpenFile(scratch, os.O_CREATE|os.O_RDWR|os.O_TRUNC, 0644)
	if err != nil {
		return "", err
	}
	defer f.Close()
	saved, err := syscall.Dup(1)
	if err != nil {
		return "", err
	}
	syscall.Dup2(int(f.Fd()), 1)
	execErr := e.Exec(q)
	syscall.Dup2(saved, 1)
	syscall.Close(saved)
	b, rerr := os.ReadFile(scratch)
	if rerr != nil {
		return "", rerr
	}
	return string(b), execErr
}

// FormatTable renders a result exactly the way the engine's printTable does.
func FormatTable(r *Result) string {
	var out bytes.Buffer
	w := tabwriter.NewWriter(&out, 0, 0, 1, ' ', 0)
	out.WriteString("\n\r\n\r")
	for _, h := range r.Header {
		fmt.Fprintf(w, "| [%s]\t", h)
	}
	fmt.Fprint(w, "|\n\r")
	for range r.Header {
		fmt.Fprint(w, "| --------------------\t")
	}
	fmt.Fprint(w, "|\n\r")
	for _, row := range r.Rows {
		for _, v := range row {
			fmt.Fprintf(w, "| %v\t", v)
		}
		fmt.Fprint(w, "|\n\r")
	}
	w.Flush()
	fmt.Fprintf(&out, "\n\r%d result(s) returned\n\r", len(r.Rows))
	return out.String()
}
