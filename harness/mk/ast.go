package mk

import (
	"fmt"
	"sort"
	"strings"

	"github.com/mk6i/mkdb/sql"

	"verif/harness/gen"
	"verif/harness/model"
)

// SelectAST builds the parser's representation of a query tree.
func SelectAST(q gen.Select) sql.Select {
	var s sql.Select
	for _, it := range q.Items {
		dc := sql.DerivedColumn{AsClause: it.Alias}
		switch it.Kind {
		case "star":
			dc.ValueExpressionPrimary = sql.Asterisk{}
		case "col":
			dc.ValueExpressionPrimary = sql.ColumnReference{Qualifier: it.Col.Qual, ColumnName: it.Col.Name}
		case "lit":
			dc.ValueExpressionPrimary = it.Lit.Go()
		case "cond":
			dc.ValueExpressionPrimary = CondAST(it.Cond)
		case "count":
			if it.Col != nil {
				dc.ValueExpressionPrimary = sql.Count{ValueExpression: sql.ColumnReference{Qualifier: it.Col.Qual, ColumnName: it.Col.Name}}
			} else {
				dc.ValueExpressionPrimary = sql.Count{}
			}
		case "avg":
			dc.ValueExpressionPrimary = sql.Average{ValueExpression: sql.ColumnReference{Qualifier: it.Col.Qual, ColumnName: it.Col.Name}}
		}
		s.SelectList = append(s.SelectList, dc)
	}
	if q.From != nil {
		tn := func(t gen.TableRef) sql.TableName {
			n := sql.TableName{Name: t.Name}
			if t.Alias != "" {
				n.CorrelationName = t.Alias
			}
			return n
		}
		var ref sql.TableReference = tn(*q.From)
		for _, j := range q.Joins {
			jt := sql.JoinType(sql.INNER_JOIN)
			switch j.Type {
			case "left":
				jt = sql.LEFT_JOIN
			case "right":
				jt = sql.RIGHT_JOIN
			}
			ref = sql.QualifiedJoin{LHS: ref, JoinType: jt, RHS: tn(j.Table), JoinCondition: CondAST(j.On)}
		}
		s.FromClause = sql.FromClause{ref}
		if q.Where != nil {
			s.WhereClause = sql.WhereClause{SearchCondition: CondAST(q.Where)}
		}
		for _, g := range q.GroupBy {
			s.GroupByClause = append(s.GroupByClause, sql.ColumnReference{Qualifier: g.Qual, ColumnName: g.Name})
		}
	}
	for _, o := range q.OrderBy {
		tt := sql.TokenType(sql.ASC)
		if o.Dir == "desc" {
			tt = sql.DESC
		}
		s.SortSpecificationList = append(s.SortSpecificationList, sql.SortSpecification{
			SortKey:               sql.ColumnReference{Qualifier: o.Col.Qual, ColumnName: o.Col.Name},
			OrderingSpecification: sql.Token{Type: tt},
		})
	}
	if q.Limit != nil {
		s.LimitActive, s.Limit = true, *q.Limit
	}
	if q.Offset != nil {
		s.OffsetActive, s.Offset = true, *q.Offset
	}
	return s
}

func CreateTableAST(st model.Stmt) sql.CreateTable {
	ct := sql.CreateTable{Name: st.Table}
	for _, c := range st.Cols {
		var dt interface{}
		switch c.Type {
		case model.TInt:
			dt = sql.NumericType{}
		case model.TBigInt:
			dt = sql.BigIntType{}
		case model.TBool:
			dt = sql.BooleanType{}
		case model.TVarchar:
			dt = sql.CharacterStringType{Len: int64(c.Len), Type: sql.T_VARCHAR}
		}
		ct.Elements = append(ct.Elements, sql.TableElement{ColumnDefinition: sql.ColumnDefinition{DataType: dt, Name: c.Name}})
	}
	return ct
}

// AnyAST is the parser AST a generated statement denotes.
func AnyAST(a gen.AnyStmt) interface{} {
	switch a.Kind {
	case "select":
		return SelectAST(*a.Select)
	case "dml":
		switch a.DML.Kind {
		case "create":
			return CreateTableAST(*a.DML)
		case "insert":
			return InsertAST(*a.DML)
		case "update":
			return UpdateAST(*a.DML)
		case "delete":
			return DeleteAST(*a.DML)
		}
	case "create_db":
		return sql.CreateDatabase{Name: a.Name}
	case "use":
		return sql.UseStatement{DBName: a.Name}
	case "show":
		return sql.ShowDatabase{}
	}
	panic("bad statement")
}

// Canon prints a parser AST in a canonical form that ignores what is not part
// of the statement's meaning: token positions and text inside ordering
// specifications, nil versus empty lists.
func Canon(x interface{}) string {
	var sb strings.Builder
	canon(&sb, x)
	return sb.String()
}

func canon(sb *strings.Builder, x interface{}) {
	switch v := x.(type) {
	case nil:
		sb.WriteString("nil")
	case int64:
		fmt.Fprintf(sb, "int(%d)", v)
	case int:
		fmt.Fprintf(sb, "int(%d)", v)
	case string:
		fmt.Fprintf(sb, "str(%q)", v)
	case bool:
		fmt.Fprintf(sb, "bool(%v)", v)
	case sql.Select:
		sb.WriteString("Select{list:[")
		for _, dc := range v.SelectList {
			canon(sb, dc)
			sb.WriteString(";")
		}
		sb.WriteString("] from:[")
		for _, f := range v.FromClause {
			canon(sb, f)
			sb.WriteString(";")
		}
		sb.WriteString("] where:")
		canon(sb, v.WhereClause)
		sb.WriteString(" group:[")
		for _, g := range v.GroupByClause {
			canon(sb, g)
			sb.WriteString(";")
		}
		sb.WriteString("] order:[")
		for _, o := range v.SortSpecificationList {
			canon(sb, o.SortKey)
			if o.OrderingSpecification.Type == sql.DESC {
				sb.WriteString(" DESC;")
			} else if o.OrderingSpecification.Type == sql.ASC {
				sb.WriteString(" ASC;")
			} else {
				fmt.Fprintf(sb, " ORDER?%d;", o.OrderingSpecification.Type)
			}
		}
		fmt.Fprintf(sb, "] limit:%v/%d offset:%v/%d}", v.LimitActive, v.Limit, v.OffsetActive, v.Offset)
	case sql.DerivedColumn:
		sb.WriteString("item(")
		canon(sb, v.ValueExpressionPrimary)
		fmt.Fprintf(sb, " as %q)", v.AsClause)
	case sql.Asterisk:
		sb.WriteString("*")
	case sql.ColumnReference:
		fmt.Fprintf(sb, "col(%q.%q)", v.Qualifier, v.ColumnName)
	case sql.Count:
		sb.WriteString("count(")
		canon(sb, v.ValueExpression)
		sb.WriteString(")")
	case sql.Average:
		sb.WriteString("avg(")
		canon(sb, v.ValueExpression)
		sb.WriteString(")")
	case sql.TableName:
		fmt.Fprintf(sb, "table(%q alias ", v.Name)
		canon(sb, v.CorrelationName)
		sb.WriteString(")")
	case sql.QualifiedJoin:
		fmt.Fprintf(sb, "join(type %d, ", v.JoinType)
		canon(sb, v.LHS)
		sb.WriteString(", ")
		canon(sb, v.RHS)
		sb.WriteString(" on ")
		canon(sb, v.JoinCondition)
		sb.WriteString(")")
	case sql.WhereClause:
		sb.WriteString("where(")
		canon(sb, v.SearchCondition)
		sb.WriteString(")")
	case sql.SearchCondition:
		// a chain of ORs is one n-ary disjunction however the parser nests it
		var ops []interface{}
		var collect func(x interface{})
		collect = func(x interface{}) {
			if sc, ok := x.(sql.SearchCondition); ok {
				collect(sc.LHS)
				collect(sc.RHS)
				return
			}
			ops = append(ops, x)
		}
		collect(v)
		sb.WriteString("OR(")
		for _, o := range ops {
			canon(sb, o)
			sb.WriteString("; ")
		}
		sb.WriteString(")")
	case sql.BooleanTerm:
		var ops []interface{}
		var collect func(x interface{})
		collect = func(x interface{}) {
			if bt, ok := x.(sql.BooleanTerm); ok {
				collect(bt.LHS)
				collect(bt.RHS)
				return
			}
			ops = append(ops, x)
		}
		collect(v)
		sb.WriteString("AND(")
		for _, o := range ops {
			canon(sb, o)
			sb.WriteString("; ")
		}
		sb.WriteString(")")
	case sql.Predicate:
		canon(sb, v.ComparisonPredicate)
	case sql.ComparisonPredicate:
		sb.WriteString("cmp(")
		canon(sb, v.LHS)
		fmt.Fprintf(sb, " op%d ", v.CompOp)
		canon(sb, v.RHS)
		sb.WriteString(")")
	case sql.InsertStatement:
		fmt.Fprintf(sb, "Insert{%q cols:%q rows:[", v.TableName, v.ColumnNames)
		if tvc, ok := v.QueryExpression.(sql.TableValueConstructor); ok {
			for _, r := range tvc.TableValueConstructorList {
				sb.WriteString("(")
				for _, e := range r.RowValueConstructorList {
					canon(sb, e)
					sb.WriteString(",")
				}
				sb.WriteString(")")
			}
		} else {
			fmt.Fprintf(sb, "?%T", v.QueryExpression)
		}
		sb.WriteString("]}")
	case sql.UpdateStatementSearched:
		fmt.Fprintf(sb, "Update{%q set:[", v.TableName)
		for _, sc := range v.Set {
			fmt.Fprintf(sb, "%q=", sc.ObjectColumn)
			canon(sb, sc.UpdateSource)
			sb.WriteString(";")
		}
		sb.WriteString("] where:")
		canon(sb, v.Where)
		sb.WriteString("}")
	case sql.DeleteStatementSearched:
		fmt.Fprintf(sb, "Delete{%q where:", v.TableName)
		canon(sb, v.WhereClause)
		sb.WriteString("}")
	case sql.CreateTable:
		fmt.Fprintf(sb, "CreateTable{%q [", v.Name)
		for _, e := range v.Elements {
			fmt.Fprintf(sb, "%q:", e.ColumnDefinition.Name)
			switch dt := e.ColumnDefinition.DataType.(type) {
			case sql.NumericType:
				sb.WriteString("INT")
			case sql.BigIntType:
				sb.WriteString("BIGINT")
			case sql.BooleanType:
				sb.WriteString("BOOLEAN")
			case sql.CharacterStringType:
				fmt.Fprintf(sb, "VARCHAR(%d)", dt.Len)
			default:
				fmt.Fprintf(sb, "?%T", dt)
			}
			sb.WriteString(";")
		}
		sb.WriteString("]}")
	case sql.CreateDatabase:
		fmt.Fprintf(sb, "CreateDatabase{%q}", v.Name)
	case sql.UseStatement:
		fmt.Fprintf(sb, "Use{%q}", v.DBName)
	case sql.ShowDatabase:
		sb.WriteString("ShowDatabase{}")
	default:
		fmt.Fprintf(sb, "?%T(%v)", x, x)
	}
}

// EvalBool evaluates a parsed boolean condition made of comparisons between
// integer literals, independently of mkdb's executor. Used to check that AND
// binds tighter than OR whatever the AST shape is.
func EvalBool(x interface{}, leaf func(cp sql.ComparisonPredicate) bool) (bool, error) {
	switch v := x.(type) {
	case sql.SearchCondition:
		l, err := EvalBool(v.LHS, leaf)
		if err != nil {
			return false, err
		}
		r, err := EvalBool(v.RHS, leaf)
		return l || r, err
	case sql.BooleanTerm:
		l, err := EvalBool(v.LHS, leaf)
		if err != nil {
			return false, err
		}
		r, err := EvalBool(v.RHS, leaf)
		return l && r, err
	case sql.Predicate:
		return leaf(v.ComparisonPredicate), nil
	}
	return false, fmt.Errorf("unexpected node %T in a boolean condition", x)
}

var _ = sort.Strings
