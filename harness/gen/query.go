package gen

import (
	"strings"

	"pgregory.net/rapid"

	"verif/harness/model"
)

// ---------------------------------------------------------------- SELECT trees

type ColRef struct {
	Qual string `json:"qual,omitempty"`
	Name string `json:"name"`
}

func (c ColRef) String() string {
	if c.Qual != "" {
		return c.Qual + "." + c.Name
	}
	return c.Name
}

// SelItem is one element of a select list.
type SelItem struct {
	Kind  string      `json:"kind"` // star | col | lit | cond | count | avg
	Col   *ColRef     `json:"col,omitempty"`
	Lit   *model.Val  `json:"lit,omitempty"`
	Cond  *model.Cond `json:"cond,omitempty"`
	Alias string      `json:"alias,omitempty"`
	UseAS bool        `json:"as,omitempty"`
}

type TableRef struct {
	Name  string `json:"name"`
	Alias string `json:"alias,omitempty"`
}

// ID is how columns of this table are addressed: the alias if there is one.
func (t TableRef) ID() string {
	if t.Alias != "" {
		return t.Alias
	}
	return t.Name
}

type Join struct {
	Type    string      `json:"type"` // inner | left | right
	InnerKW bool        `json:"inner_kw,omitempty"`
	Table   TableRef    `json:"table"`
	On      *model.Cond `json:"on"`
}

type OrderKey struct {
	Col ColRef `json:"col"`
	Dir string `json:"dir,omitempty"` // "" | asc | desc
}

type Select struct {
	Items      []SelItem   `json:"items"`
	From       *TableRef   `json:"from,omitempty"`
	Joins      []Join      `json:"joins,omitempty"`
	Where      *model.Cond `json:"where,omitempty"`
	GroupBy    []ColRef    `json:"group_by,omitempty"`
	OrderBy    []OrderKey  `json:"order_by,omitempty"`
	Limit      *int        `json:"limit,omitempty"`
	Offset     *int        `json:"offset,omitempty"`
	LimitFirst bool        `json:"limit_first,omitempty"`
	// AmbigOK: an alias in the select list shadows another selected column's
	// name; the database may refuse the query as ambiguous instead of answering it
	AmbigOK bool `json:"ambig_ok,omitempty"`
}

func (s *Style) ColRef(c ColRef) string {
	if c.Qual != "" {
		return s.ID(c.Qual) + s.OSP() + "." + s.OSP() + s.ID(c.Name)
	}
	return s.ID(c.Name)
}

func (s *Style) TableRef(t TableRef) string {
	if t.Alias != "" {
		return s.ID(t.Name) + s.SP() + s.ID(t.Alias)
	}
	return s.ID(t.Name)
}

// RenderSelect renders the query as SQL text in mkdb's dialect.
func RenderSelect(st *Style, q Select) string {
	var sb strings.Builder
	sb.WriteString(st.KW("SELECT") + st.SP())
	for i, it := range q.Items {
		if i > 0 {
			sb.WriteString(st.Comma())
		}
		switch it.Kind {
		case "star":
			sb.WriteString("*")
		case "col":
			sb.WriteString(st.ColRef(*it.Col))
		case "lit":
			sb.WriteString(st.Lit(*it.Lit))
		case "cond":
			sb.WriteString(st.Cond(it.Cond))
		case "count":
			sb.WriteString(st.KW("COUNT") + st.OSP() + "(" + st.OSP())
			if it.Col != nil {
				sb.WriteString(st.ColRef(*it.Col))
			} else {
				sb.WriteString("*")
			}
			sb.WriteString(st.OSP() + ")")
		case "avg":
			sb.WriteString(st.KW("AVG") + st.OSP() + "(" + st.OSP() + st.ColRef(*it.Col) + st.OSP() + ")")
		}
		if it.Alias != "" {
			if it.UseAS {
				sb.WriteString(st.SP() + st.KW("AS"))
			}
			sb.WriteString(st.SP() + st.ID(it.Alias))
		}
	}
	if q.From != nil {
		sb.WriteString(st.SP() + st.KW("FROM") + st.SP() + st.TableRef(*q.From))
		for _, j := range q.Joins {
			sb.WriteString(st.SP())
			switch j.Type {
			case "left":
				sb.WriteString(st.KW("LEFT") + st.SP())
			case "right":
				sb.WriteString(st.KW("RIGHT") + st.SP())
			default:
				if j.InnerKW {
					sb.WriteString(st.KW("INNER") + st.SP())
				}
			}
			sb.WriteString(st.KW("JOIN") + st.SP() + st.TableRef(j.Table) + st.SP() + st.KW("ON") + st.SP() + st.Cond(j.On))
		}
		if q.Where != nil {
			sb.WriteString(st.SP() + st.KW("WHERE") + st.SP() + st.Cond(q.Where))
		}
		if len(q.GroupBy) > 0 {
			sb.WriteString(st.SP() + st.KW("GROUP") + st.SP() + st.KW("BY") + st.SP())
			for i, g := range q.GroupBy {
				if i > 0 {
					sb.WriteString(st.Comma())
				}
				sb.WriteString(st.ColRef(g))
			}
		}
	}
	if len(q.OrderBy) > 0 {
		sb.WriteString(st.SP() + st.KW("ORDER") + st.SP() + st.KW("BY") + st.SP())
		for i, o := range q.OrderBy {
			if i > 0 {
				sb.WriteString(st.Comma())
			}
			sb.WriteString(st.ColRef(o.Col))
			switch o.Dir {
			case "asc":
				sb.WriteString(st.SP() + st.KW("ASC"))
			case "desc":
				sb.WriteString(st.SP() + st.KW("DESC"))
			}
		}
	}
	lim := func() {
		if q.Limit != nil {
			sb.WriteString(st.SP() + st.KW("LIMIT") + st.SP() + st.Num(*q.Limit))
		}
	}
	off := func() {
		if q.Offset != nil {
			sb.WriteString(st.SP() + st.KW("OFFSET") + st.SP() + st.Num(*q.Offset))
		}
	}
	if q.LimitFirst {
		lim()
		off()
	} else {
		off()
		lim()
	}
	sb.WriteString(st.End())
	return sb.String()
}

// ---------------------------------------------------------------- free (syntax only) generators, for C09/C10

func freeOperand(rt *rapid.T, allowQual bool) model.Operand {
	switch rapid.IntRange(0, 5).Draw(rt, "operand") {
	case 0:
		v := model.Int(rapid.OneOf(rapid.Int64Range(0, 20), rapid.Int64Range(0, 1<<40)).Draw(rt, "int"))
		return model.Operand{Lit: &v}
	case 1:
		v := model.Str(TextString(rt, "str", 12))
		return model.Operand{Lit: &v}
	case 2:
		v := model.Bool(rapid.Bool().Draw(rt, "bool"))
		return model.Operand{Lit: &v}
	}
	o := model.Operand{Col: IdentX(rt, "col", colPool)}
	if allowQual && rapid.IntRange(0, 2).Draw(rt, "qual") == 0 {
		o.Qual = IdentX(rt, "qualname", tablePool)
	}
	return o
}

// FreeCond draws a condition with nor disjuncts whose sizes are given.
func FreeCond(rt *rapid.T, maxOr, maxAnd int) *model.Cond {
	c := &model.Cond{}
	nor := rapid.IntRange(1, maxOr).Draw(rt, "nor")
	for i := 0; i < nor; i++ {
		nand := rapid.IntRange(1, maxAnd).Draw(rt, "nand")
		var conj []model.Cmp
		for j := 0; j < nand; j++ {
			conj = append(conj, model.Cmp{
				L:  freeOperand(rt, true),
				Op: rapid.SampledFrom([]string{"=", "!=", "<", "<=", ">", ">="}).Draw(rt, "op"),
				R:  freeOperand(rt, true),
			})
		}
		c.Or = append(c.Or, conj)
	}
	return c
}

func freeColRef(rt *rapid.T) ColRef {
	c := ColRef{Name: IdentX(rt, "col", colPool)}
	if rapid.IntRange(0, 2).Draw(rt, "qual") == 0 {
		c.Qual = IdentX(rt, "qualname", tablePool)
	}
	return c
}

func freeTableRef(rt *rapid.T) TableRef {
	t := TableRef{Name: IdentX(rt, "table", tablePool)}
	if rapid.IntRange(0, 2).Draw(rt, "alias") == 0 {
		t.Alias = IdentX(rt, "aliasname", []string{"x", "y", "z", "t", "u"})
	}
	return t
}

// listLen draws the length of a list of the grammar: usually 1-6, one time in
// twenty-five 7-40 (lengths around 8, 16 and 32 included).
func listLen(rt *rapid.T, label string) int {
	if rapid.IntRange(0, 24).Draw(rt, label+"_long") == 0 {
		return rapid.SampledFrom([]int{7, 8, 9, 11, 15, 16, 17, 24, 32, 33, 40}).Draw(rt, label+"_n")
	}
	return rapid.IntRange(1, 6).Draw(rt, label)
}

// FreeSelect draws a syntactically valid SELECT over the whole supported
// grammar, with no regard for any schema. With aggregates it keeps the
// parser's own GROUP BY validation satisfied (every plain column of the select
// list is named, with identical spelling, in GROUP BY, each once).
func FreeSelect(rt *rapid.T) Select {
	q := Select{}
	aggregate := rapid.IntRange(0, 3).Draw(rt, "aggregate") == 0
	hasFrom := aggregate || rapid.IntRange(0, 9).Draw(rt, "hasfrom") > 0
	if !aggregate && rapid.IntRange(0, 3).Draw(rt, "star") == 0 && hasFrom {
		q.Items = []SelItem{{Kind: "star"}}
	} else {
		n := listLen(rt, "nitems")
		usedCols := map[string]bool{}
		for i := 0; i < n; i++ {
			it := SelItem{}
			kinds := []string{"col", "col", "lit", "cond"}
			if aggregate {
				kinds = []string{"col", "count", "count", "avg"}
			}
			it.Kind = rapid.SampledFrom(kinds).Draw(rt, "itemkind")
			switch it.Kind {
			case "col":
				c := freeColRef(rt)
				if aggregate {
					// distinct names, so that GROUP BY matching is unambiguous
					for usedCols[c.Name] {
						c.Name += "x"
					}
					usedCols[c.Name] = true
				}
				it.Col = &c
			case "lit":
				o := freeOperand(rt, false)
				for o.Lit == nil {
					o = freeOperand(rt, false)
				}
				it.Lit = o.Lit
			case "cond":
				it.Cond = FreeCond(rt, 2, 2)
			case "count":
				if rapid.Bool().Draw(rt, "countcol") {
					c := freeColRef(rt)
					it.Col = &c
				}
			case "avg":
				c := freeColRef(rt)
				it.Col = &c
			}
			if rapid.IntRange(0, 2).Draw(rt, "hasalias") == 0 {
				it.Alias = IdentX(rt, "alias", []string{"p", "q", "r", "total", "n1"})
				it.UseAS = rapid.Bool().Draw(rt, "useas")
			}
			q.Items = append(q.Items, it)
		}
		if aggregate {
			hasAgg := false
			for _, it := range q.Items {
				if it.Kind == "count" || it.Kind == "avg" {
					hasAgg = true
				}
			}
			if !hasAgg {
				q.Items = append(q.Items, SelItem{Kind: "count"})
			}
			for _, it := range q.Items {
				if it.Kind == "col" {
					// an alias that equals another column's name would make the
					// parser's matching ambiguous; keep aliases out of that set
					q.GroupBy = append(q.GroupBy, *it.Col)
				}
			}
			for i := range q.Items {
				if q.Items[i].Kind == "col" && usedCols[q.Items[i].Alias] {
					q.Items[i].Alias = ""
				}
			}
		}
	}
	if hasFrom {
		t := freeTableRef(rt)
		q.From = &t
		nj := rapid.SampledFrom([]int{0, 0, 1, 1, 2, 3}).Draw(rt, "njoins")
		for i := 0; i < nj; i++ {
			j := Join{Type: rapid.SampledFrom([]string{"inner", "left", "right"}).Draw(rt, "jtype"), Table: freeTableRef(rt), On: FreeCond(rt, 2, 2)}
			j.InnerKW = j.Type == "inner" && rapid.Bool().Draw(rt, "innerkw")
			q.Joins = append(q.Joins, j)
		}
		if rapid.IntRange(0, 2).Draw(rt, "haswhere") > 0 {
			q.Where = FreeCond(rt, 3, 3)
		}
	} else {
		q.GroupBy = nil
	}
	if !hasFrom {
		// the dialect only accepts a bare select list when there is no FROM
		return q
	}
	no := rapid.SampledFrom([]int{0, 0, 1, 2, 3, 6}).Draw(rt, "norder")
	if no > 0 && rapid.IntRange(0, 19).Draw(rt, "norder_long") == 0 {
		no = rapid.SampledFrom([]int{7, 9, 16, 17, 33}).Draw(rt, "norder_n")
	}
	for i := 0; i < no; i++ {
		q.OrderBy = append(q.OrderBy, OrderKey{Col: freeColRef(rt), Dir: rapid.SampledFrom([]string{"", "asc", "desc"}).Draw(rt, "dir")})
	}
	lim := rapid.OneOf(rapid.IntRange(0, 1000), rapid.SampledFrom([]int{0, 1, 9223372036854775807, 9223372036854775806, 4611686018427387904, 2147483648}))
	if rapid.IntRange(0, 2).Draw(rt, "haslimit") == 0 {
		v := lim.Draw(rt, "limit")
		q.Limit = &v
	}
	if rapid.IntRange(0, 2).Draw(rt, "hasoffset") == 0 {
		v := lim.Draw(rt, "offset")
		q.Offset = &v
	}
	q.LimitFirst = rapid.Bool().Draw(rt, "limitfirst")
	return q
}

// AnyStmt is one statement of the supported grammar in structured form.
type AnyStmt struct {
	Kind   string      `json:"kind"` // select | dml | create_db | use | show
	Select *Select     `json:"select,omitempty"`
	DML    *model.Stmt `json:"dml,omitempty"` // create table, insert, update, delete
	Name   string      `json:"name,omitempty"`
	Plural bool        `json:"plural,omitempty"` // SHOW DATABASES
}

// FreeStmt draws any statement of the grammar (syntax only).
func FreeStmt(rt *rapid.T) AnyStmt {
	switch rapid.SampledFrom([]string{"select", "select", "select", "insert", "update", "delete", "create", "create_db", "use", "show"}).Draw(rt, "stmtkind") {
	case "select":
		q := FreeSelect(rt)
		return AnyStmt{Kind: "select", Select: &q}
	case "insert":
		s := model.Stmt{Kind: "insert", Table: IdentX(rt, "table", tablePool)}
		ncol := listLen(rt, "ncol")
		if rapid.Bool().Draw(rt, "collist") {
			for i := 0; i < ncol; i++ {
				s.InsCols = append(s.InsCols, IdentX(rt, "col", colPool))
			}
		}
		nrows := listLen(rt, "nrows")
		for r := 0; r < nrows; r++ {
			var row []model.Val
			for i := 0; i < ncol; i++ {
				o := freeOperand(rt, false)
				for o.Lit == nil {
					o = freeOperand(rt, false)
				}
				row = append(row, *o.Lit)
			}
			s.Rows = append(s.Rows, row)
		}
		return AnyStmt{Kind: "dml", DML: &s}
	case "update":
		s := model.Stmt{Kind: "update", Table: IdentX(rt, "table", tablePool)}
		for i := listLen(rt, "nset"); i > 0; i-- {
			o := freeOperand(rt, false)
			for o.Lit == nil {
				o = freeOperand(rt, false)
			}
			s.Set = append(s.Set, model.Assign{Col: IdentX(rt, "col", colPool), Val: *o.Lit})
		}
		if rapid.Bool().Draw(rt, "haswhere") {
			s.Where = FreeCond(rt, 3, 3)
		}
		return AnyStmt{Kind: "dml", DML: &s}
	case "delete":
		s := model.Stmt{Kind: "delete", Table: IdentX(rt, "table", tablePool)}
		if rapid.Bool().Draw(rt, "haswhere") {
			s.Where = FreeCond(rt, 3, 3)
		}
		return AnyStmt{Kind: "dml", DML: &s}
	case "create":
		s := model.Stmt{Kind: "create", Table: Ident(rt, "table", tablePool), Cols: ColumnsW(rt, 6, true)}
		return AnyStmt{Kind: "dml", DML: &s}
	case "create_db":
		return AnyStmt{Kind: "create_db", Name: IdentX(rt, "db", []string{"d1", "d2", "shop"})}
	case "use":
		return AnyStmt{Kind: "use", Name: IdentX(rt, "db", []string{"d1", "d2", "shop"})}
	}
	return AnyStmt{Kind: "show", Plural: rapid.Bool().Draw(rt, "plural")}
}

// RenderAny renders any statement.
func RenderAny(st *Style, a AnyStmt) string {
	switch a.Kind {
	case "select":
		return RenderSelect(st, *a.Select)
	case "dml":
		return RenderStmt(st, *a.DML)
	case "create_db":
		return st.KW("CREATE") + st.SP() + st.KW("DATABASE") + st.SP() + st.ID(a.Name) + st.End()
	case "use":
		return st.KW("USE") + st.SP() + st.ID(a.Name) + st.End()
	case "show":
		if a.Plural {
			return st.KW("SHOW") + st.SP() + st.KW("DATABASES") + st.End()
		}
		return st.KW("SHOW") + st.SP() + st.KW("DATABASE") + st.End()
	}
	panic("bad kind " + a.Kind)
}
