// Package gen holds the rapid generators shared by the checks: identifiers,
// typed values, DDL/DML histories threaded through the reference model, and
// the SQL text rendering with its layout variations.
package gen

import (
	"fmt"
	"math"
	"regexp"
	"strings"

	"pgregory.net/rapid"

	"verif/harness/model"
)

// Keywords of mkdb's scanner (upper case). Identifiers must avoid them.
var Keywords = map[string]bool{}

func init() {
	for _, k := range strings.Fields(`TRUE FALSE AND OR AS ASC AVG BEGIN BY CASE COMMIT COUNT CREATE DATABASE DELETE DESC DISTINCT
		ELSE END EXISTS FROM FULL GROUP HAVING IN INNER INSERT INTO JOIN LEFT LIKE LIMIT MAX MIN NOT NULL OFFSET ON ORDER OUTER RIGHT
		SELECT SET SHOW SUM BOOLEAN INT BIGINT VARCHAR TABLE THEN UNION UNIQUE UPDATE USE VALUES WHEN WHERE WITH`) {
		Keywords[k] = true
	}
}

var colPool = []string{"a", "b", "c", "d", "k", "v", "name", "flag", "qty", "note", "x1", "y_2"}
var tablePool = []string{"t0", "t1", "t2", "t3", "t4", "t5", "orders", "items", "people"}

func okIdent(s string) bool {
	if Keywords[strings.ToUpper(s)] {
		return false
	}
	ls := strings.ToLower(s)
	return ls != "sys_pages" && ls != "sys_schema" && ls != "databases"
}

// Ident draws an identifier that is not a keyword.
func Ident(t *rapid.T, label string, pool []string) string {
	if rapid.IntRange(0, 9).Draw(t, label+"_pool") < 8 {
		return rapid.SampledFrom(pool).Draw(t, label)
	}
	s := rapid.StringMatching(`[a-z][a-z0-9_]{0,7}`).Draw(t, label)
	if !okIdent(s) {
		s = "q" + s
	}
	return s
}

// ---------------------------------------------------------------- values

// TextAlphabet: what a SQL string literal can carry through mkdb's scanner,
// which has no quote escaping: printable characters except ' and \, no line
// breaks. A few multi-byte runes are included.
var textRunes = []rune("abcdefghijklmnopqrstuvwxyzABCXYZ0123456789 _-;,.:\"()*=<>!/%#éß日本‘’“”«»`´\u00a0")

// escape units: the scanner (a copy of Go's text/scanner) treats a backslash
// inside a string token as the start of an escape and keeps the raw text, so
// these two-character units are part of what a literal can carry. The stored
// string is the raw text, backslash included.
var textUnits = []string{`\'`, `\\`, `\"`, `\n`, `\t`}

func TextString(t *rapid.T, label string, maxLen int) string {
	n := rapid.OneOf(rapid.IntRange(0, 3), rapid.IntRange(0, maxLen)).Draw(t, label+"_len")
	var sb strings.Builder
	for sb.Len() < n {
		if n-sb.Len() >= 2 && rapid.IntRange(0, 24).Draw(t, label+"_esc") == 0 {
			sb.WriteString(rapid.SampledFrom(textUnits).Draw(t, label+"_unit"))
			continue
		}
		r := rapid.SampledFrom(textRunes).Draw(t, label+"_r")
		if sb.Len()+len(string(r)) > n {
			sb.WriteByte('x')
			continue
		}
		sb.WriteRune(r)
	}
	return sb.String()
}

// SmallText draws from a tiny domain so that equal values and matches are common.
func SmallText(t *rapid.T, label string) string {
	return rapid.SampledFrom([]string{"", "a", "b", "ab", "abc", "b;c", "zz", "A", "1", "12", "x y",
		// near-duplicates: trailing / leading blanks, letter case, numeric look-alikes
		"a ", "a  ", " a", "ab ", "Ab", "aB", "01", "1 ", "1.0", "12 ",
		// strings that spell a keyword or an operator
		"OR", "in", "true", "NULL", "select", "max", "left", "and", "=", "*"}).Draw(t, label)
}

// Value draws a valid value for the column type. direct=true allows what SQL
// text cannot express: negative integers and arbitrary bytes.
func Value(t *rapid.T, label string, ct model.ColType, direct bool, small bool, maxStr int) model.Val {
	switch ct {
	case model.TInt:
		if small {
			return model.Int(int64(rapid.IntRange(0, 6).Draw(t, label)))
		}
		if direct {
			return model.Int(rapid.OneOf(
				rapid.SampledFrom([]int64{0, 1, -1, math.MaxInt32, math.MinInt32, math.MaxInt32 - 1, math.MinInt32 + 1}),
				rapid.Int64Range(math.MinInt32, math.MaxInt32)).Draw(t, label))
		}
		return model.Int(rapid.OneOf(
			rapid.SampledFrom([]int64{0, 1, 2, math.MaxInt32, math.MaxInt32 - 1}),
			rapid.Int64Range(0, 50),
			rapid.Int64Range(0, math.MaxInt32)).Draw(t, label))
	case model.TBigInt:
		if small {
			return model.Int(int64(rapid.IntRange(0, 6).Draw(t, label)))
		}
		if direct {
			return model.Int(rapid.OneOf(
				rapid.SampledFrom([]int64{0, -1, math.MaxInt64, math.MinInt64, math.MaxInt32 + 1, math.MinInt32 - 1}),
				rapid.Int64()).Draw(t, label))
		}
		return model.Int(rapid.OneOf(
			rapid.SampledFrom([]int64{0, 1, math.MaxInt64, math.MaxInt32 + 1}),
			rapid.Int64Range(0, 50),
			rapid.Int64Range(0, math.MaxInt64)).Draw(t, label))
	case model.TBool:
		return model.Bool(rapid.Bool().Draw(t, label))
	case model.TVarchar:
		if small {
			return model.Str(SmallText(t, label))
		}
		if direct && rapid.IntRange(0, 2).Draw(t, label+"_bin") == 0 {
			n := rapid.OneOf(rapid.IntRange(0, 4), rapid.IntRange(0, maxStr)).Draw(t, label+"_blen")
			b := rapid.SliceOfN(rapid.Byte(), n, n).Draw(t, label+"_bytes")
			return model.Bytes(b)
		}
		return model.Str(TextString(t, label, maxStr))
	}
	panic("bad type")
}

// ---------------------------------------------------------------- rendering

// Style is the set of layout choices for one rendered statement.
type Style struct {
	t *rapid.T
	// longPad: once per statement a run of white space of this length is
	// emitted (statements longer than the scanner's 1024-byte buffer)
	longPad int
}

func NewStyle(t *rapid.T) *Style {
	s := &Style{t: t}
	if rapid.IntRange(0, 5).Draw(t, "longpad") == 0 {
		s.longPad = rapid.IntRange(900, 1100).Draw(t, "longpad_len")
	}
	return s
}

// Plain renders deterministically (upper-case keywords, single spaces).
func Plain() *Style { return &Style{} }

// kw renders a keyword in a drawn letter case.
func (s *Style) KW(k string) string {
	if s.t == nil {
		return k
	}
	switch rapid.IntRange(0, 3).Draw(s.t, "kwcase") {
	case 0:
		return strings.ToLower(k)
	case 1:
		return k
	case 2:
		return strings.ToUpper(k[:1]) + strings.ToLower(k[1:])
	}
	// mixed
	var sb strings.Builder
	for i, r := range k {
		if (i+len(k))%2 == 0 {
			sb.WriteString(strings.ToLower(string(r)))
		} else {
			sb.WriteString(strings.ToUpper(string(r)))
		}
	}
	return sb.String()
}

// SP is mandatory white space between two word tokens.
func (s *Style) SP() string {
	if s.t == nil {
		return " "
	}
	if s.longPad > 0 && rapid.IntRange(0, 3).Draw(s.t, "padhere") == 0 {
		n := s.longPad
		s.longPad = 0
		return strings.Repeat(" ", n)
	}
	return rapid.SampledFrom([]string{" ", " ", " ", "  ", "\t", "\n", " \n  ", "\r\n"}).Draw(s.t, "sp")
}

// OSP is optional white space around punctuation.
func (s *Style) OSP() string {
	if s.t == nil {
		return ""
	}
	return rapid.SampledFrom([]string{"", "", " ", "  ", "\n", "\t"}).Draw(s.t, "osp")
}

// ID renders an identifier, optionally as a delimited identifier. Names that
// are keywords or are not plain identifiers can only be written delimited.
func (s *Style) ID(name string) string {
	if !PlainIdent(name) {
		return `"` + name + `"`
	}
	if s.t != nil && rapid.IntRange(0, 7).Draw(s.t, "quoteid") == 0 {
		return `"` + name + `"`
	}
	return name
}

// letters and digits of any script are identifier characters for the scanner
var plainIdentRe = regexp.MustCompile(`^[\p{L}_][\p{L}\p{Nd}_]*$`)

// PlainIdent says whether name can be written without double quotes.
func PlainIdent(name string) bool {
	return plainIdentRe.MatchString(name) && !Keywords[strings.ToUpper(name)]
}

// exotic names: keywords and odd characters (only expressible as delimited
// identifiers) and names in other scripts (which may also be written bare)
var exoticNames = []string{"select", "From", "ORDER", "my col", "a-b", "x.y", "t 0", ";semi", "(p)", "1st", "été", "and", "count", " lead", "a,b", "élève", "über", "имя", "größe", "名前", "prénom", "naïve_2", "_x", "ñ",
	// ordinary names that begin or end with a keyword
	"database_name", "distinct_users", "selection", "fromage", "ordering", "limit_1", "offsets", "tables", "values2", "setup",
	"android", "order_id", "group_id", "counted", "avg_price", "int_col", "boolean_flag", "nulls", "trueish", "into_x", "ascii",
	"description", "as_of", "bypass", "inner_id", "joined", "useful", "showing", "wherever", "created_at", "deleted", "updated_by",
	"likes", "minimum", "summary", "unions", "ending", "cases", "begins", "uniques", "t_select", "x_from", "my_table", "is_null",
	"Database_Name", "DISTINCT_USERS", "Ordering"}

// words that are reserved or type names in other SQL dialects but ordinary
// identifiers in mkdb's
var foreignWords = strings.Fields(`text string integer smallint tinyint float double real decimal numeric char character date time
	timestamp datetime interval blob binary bool bit serial key primary foreign references index constraint default check drop alter
	add column view trigger if is between all any some except intersect natural cross using over partition window row rows
	first last next only top percent escape collate cast convert to of at by_ do go for each new old user role grant revoke
	begin_ rollback savepoint work transaction schema catalog domain type enum array json xml uuid money bytea name value
	level result status comment end_ final public temporary temp replace ignore explain analyze vacuum pragma limit_ len
	length lower upper abs mod now current year month day hour minute second zone true_ false_ unknown none nil void`)

// IdentX is Ident with, now and then, a name that needs double quotes.
func IdentX(t *rapid.T, label string, pool []string) string {
	if rapid.IntRange(0, 15).Draw(t, label+"_foreign") == 0 {
		w := rapid.SampledFrom(foreignWords).Draw(t, label+"_fw")
		if okIdent(w) {
			switch rapid.IntRange(0, 3).Draw(t, label+"_fwcase") {
			case 0:
				return strings.ToUpper(w)
			case 1:
				return strings.ToUpper(w[:1]) + w[1:]
			}
			return w
		}
	}
	if rapid.IntRange(0, 11).Draw(t, label+"_exotic") == 0 {
		return rapid.SampledFrom(exoticNames).Draw(t, label+"_x")
	}
	return Ident(t, label, pool)
}

func (s *Style) Bool(b bool) string {
	if b {
		return s.KW("TRUE")
	}
	return s.KW("FALSE")
}

func (s *Style) Lit(v model.Val) string {
	if v.T == "b" {
		return s.Bool(v.B)
	}
	if v.T == "i" && v.I >= 0 {
		return s.Num(int(v.I))
	}
	return v.SQL()
}

// Num renders a non-negative integer, now and then with leading zeros (still decimal).
func (s *Style) Num(n int) string {
	if s.t != nil && rapid.IntRange(0, 9).Draw(s.t, "zeropad") == 0 {
		return strings.Repeat("0", rapid.IntRange(1, 3).Draw(s.t, "zeros")) + fmt.Sprint(n)
	}
	return fmt.Sprint(n)
}

func (s *Style) End() string {
	if s.t == nil {
		return ""
	}
	return rapid.SampledFrom([]string{"", "", ";", " ;", "; "}).Draw(s.t, "end")
}

func (s *Style) Comma() string { return s.OSP() + "," + s.OSP() }

func (s *Style) Operand(o model.Operand) string {
	if o.Lit != nil {
		return s.Lit(*o.Lit)
	}
	if o.Qual != "" {
		return s.ID(o.Qual) + "." + s.ID(o.Col)
	}
	return s.ID(o.Col)
}

func (s *Style) Op(op string) string { return s.OSP() + op + s.OSP() }

func (s *Style) Cond(c *model.Cond) string {
	var ors []string
	for _, conj := range c.Or {
		var ands []string
		for _, cmp := range conj {
			ands = append(ands, s.Operand(cmp.L)+s.Op(cmp.Op)+s.Operand(cmp.R))
		}
		ors = append(ors, strings.Join(ands, s.SP()+s.KW("AND")+s.SP()))
	}
	return strings.Join(ors, s.SP()+s.KW("OR")+s.SP())
}

// RenderStmt renders a DDL/DML statement as SQL text.
func RenderStmt(st *Style, s model.Stmt) string {
	var sb strings.Builder
	switch s.Kind {
	case "create":
		sb.WriteString(st.KW("CREATE") + st.SP() + st.KW("TABLE") + st.SP() + st.ID(s.Table) + st.OSP() + "(" + st.OSP())
		for i, c := range s.Cols {
			if i > 0 {
				sb.WriteString(st.Comma())
			}
			sb.WriteString(st.ID(c.Name) + st.SP())
			switch c.Type {
			case model.TVarchar:
				sb.WriteString(st.KW("VARCHAR") + st.OSP() + "(" + st.OSP() + st.Num(c.Len) + st.OSP() + ")")
			case model.TInt:
				sb.WriteString(st.KW("INT"))
			case model.TBigInt:
				sb.WriteString(st.KW("BIGINT"))
			case model.TBool:
				sb.WriteString(st.KW("BOOLEAN"))
			}
		}
		sb.WriteString(st.OSP() + ")")
	case "insert":
		sb.WriteString(st.KW("INSERT") + st.SP() + st.KW("INTO") + st.SP() + st.ID(s.Table))
		if len(s.InsCols) > 0 {
			sb.WriteString(st.OSP() + "(" + st.OSP())
			for i, c := range s.InsCols {
				if i > 0 {
					sb.WriteString(st.Comma())
				}
				sb.WriteString(st.ID(c))
			}
			sb.WriteString(st.OSP() + ")")
		}
		sb.WriteString(st.SP() + st.KW("VALUES") + st.OSP())
		for i, r := range s.Rows {
			if i > 0 {
				sb.WriteString(st.Comma())
			}
			sb.WriteString("(" + st.OSP())
			for j, v := range r {
				if j > 0 {
					sb.WriteString(st.Comma())
				}
				sb.WriteString(st.Lit(v))
			}
			sb.WriteString(st.OSP() + ")")
		}
	case "update":
		sb.WriteString(st.KW("UPDATE") + st.SP() + st.ID(s.Table) + st.SP() + st.KW("SET") + st.SP())
		for i, a := range s.Set {
			if i > 0 {
				sb.WriteString(st.Comma())
			}
			sb.WriteString(st.ID(a.Col) + st.Op("=") + st.Lit(a.Val))
		}
		if s.Where != nil {
			sb.WriteString(st.SP() + st.KW("WHERE") + st.SP() + st.Cond(s.Where))
		}
	case "delete":
		sb.WriteString(st.KW("DELETE") + st.SP() + st.KW("FROM") + st.SP() + st.ID(s.Table))
		if s.Where != nil {
			sb.WriteString(st.SP() + st.KW("WHERE") + st.SP() + st.Cond(s.Where))
		}
	default:
		panic("cannot render " + s.Kind)
	}
	sb.WriteString(st.End())
	return sb.String()
}

// TextRenderable says whether every value of the statement has a literal form.
func TextRenderable(s model.Stmt) bool {
	ok := func(v model.Val) bool {
		switch v.T {
		case "i":
			return v.I >= 0
		case "s", "b":
			return true
		}
		return false // NULL and byte strings have no literal
	}
	for _, r := range s.Rows {
		for _, v := range r {
			if !ok(v) {
				return false
			}
		}
	}
	for _, a := range s.Set {
		if !ok(a.Val) {
			return false
		}
	}
	if s.Where != nil {
		for _, conj := range s.Where.Or {
			for _, c := range conj {
				if c.L.Lit != nil && !ok(*c.L.Lit) || c.R.Lit != nil && !ok(*c.R.Lit) {
					return false
				}
			}
		}
	}
	return true
}
