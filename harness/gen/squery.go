package gen

import (
	"fmt"

	"pgregory.net/rapid"

	"verif/harness/model"
)

// SmallTable draws a table definition and rows over small value domains, all
// columns NULL-free, so that matches, ties and duplicates are common.
func SmallTable(rt *rapid.T, name string, minCols, maxCols, maxRows int) (model.Stmt, []model.Stmt) {
	ncols := rapid.IntRange(minCols, maxCols).Draw(rt, "ncols")
	var cols []model.Col
	for i := 0; i < ncols; i++ {
		ct := model.ColType(rapid.SampledFrom([]int{0, 0, 1, 1, 2, 3}).Draw(rt, "ctype"))
		c := model.Col{Name: colPool[i], Type: ct}
		if ct == model.TVarchar {
			c.Len = 32
		}
		cols = append(cols, c)
	}
	create := model.Stmt{Kind: "create", Table: name, Cols: cols}
	create.SQL = RenderStmt(Plain(), create)
	nrows := rapid.OneOf(rapid.IntRange(0, 6), rapid.IntRange(0, maxRows)).Draw(rt, "nrows")
	bigExtremes := rapid.IntRange(0, 2).Draw(rt, "bigextremes") == 0
	var inserts []model.Stmt
	t := &model.Table{Name: name, Cols: cols}
	for nrows > 0 {
		k := rapid.IntRange(1, nrows).Draw(rt, "batch")
		s := model.Stmt{Kind: "insert", Table: name}
		for i := 0; i < k; i++ {
			var row []model.Val
			for _, c := range t.Cols {
				if c.Type == model.TBigInt && bigExtremes {
					// neighbours beyond 2^53: distinct integers that collide as float64
					row = append(row, model.Int(rapid.SampledFrom([]int64{9007199254740992, 9007199254740993, 9007199254740994, 9223372036854775807,
						9223372036854775806, 9223372036854775805, 4611686018427387905, 4611686018427387904, 0, 5}).Draw(rt, "bigv")))
					continue
				}
				row = append(row, Value(rt, "v", c.Type, false, true, 8))
			}
			s.Rows = append(s.Rows, row)
		}
		s.SQL = RenderStmt(Plain(), s)
		inserts = append(inserts, s)
		nrows -= k
	}
	return create, inserts
}

// SingleTableSelect draws a well-typed SELECT over one table whose columns are
// all NULL-free (C05's domain).
func SingleTableSelect(rt *rapid.T, t *model.Table) Select {
	q := Select{}
	ref := TableRef{Name: t.Name}
	if rapid.IntRange(0, 3).Draw(rt, "talias") == 0 {
		ref.Alias = rapid.SampledFrom([]string{"x", "y", "tt"}).Draw(rt, "taliasname")
	}
	q.From = &ref
	qual := func() string {
		if rapid.IntRange(0, 3).Draw(rt, "usequal") == 0 {
			return ref.ID()
		}
		return ""
	}
	type outCol struct{ name, qual string }
	var header []outCol
	if rapid.IntRange(0, 2).Draw(rt, "star") == 0 {
		q.Items = []SelItem{{Kind: "star"}}
		for _, c := range t.Cols {
			header = append(header, outCol{c.Name, ref.ID()})
		}
	} else {
		n := rapid.IntRange(1, 4).Draw(rt, "nitems")
		for i := 0; i < n; i++ {
			it := SelItem{}
			switch rapid.SampledFrom([]string{"col", "col", "col", "cond", "lit"}).Draw(rt, "itemkind") {
			case "col":
				c := t.Cols[rapid.IntRange(0, len(t.Cols)-1).Draw(rt, "itemcol")]
				it.Kind, it.Col = "col", &ColRef{Qual: qual(), Name: c.Name}
			case "cond":
				w := Where(rt, t, false, "")
				if w == nil {
					continue
				}
				// a select-list expression: keep it small
				if len(w.Or) > 2 {
					w.Or = w.Or[:2]
				}
				it.Kind, it.Cond = "cond", w
			case "lit":
				v := Value(rt, "lit", model.ColType(rapid.IntRange(0, 2).Draw(rt, "littype")), false, true, 6)
				it.Kind, it.Lit = "lit", &v
			}
			if rapid.IntRange(0, 2).Draw(rt, "hasalias") == 0 {
				it.Alias = rapid.SampledFrom([]string{"p", "q", "r", "s1", "total"}).Draw(rt, "alias")
				if rapid.IntRange(0, 2).Draw(rt, "shadow") == 0 {
					// an alias that is also the name of a (different) table column
					it.Alias = t.Cols[rapid.IntRange(0, len(t.Cols)-1).Draw(rt, "shadowcol")].Name
				}
				it.UseAS = rapid.Bool().Draw(rt, "useas")
			}
			q.Items = append(q.Items, it)
			switch {
			case it.Alias != "" && it.Kind == "col":
				header = append(header, outCol{it.Alias, ref.ID()})
			case it.Alias != "":
				header = append(header, outCol{it.Alias, ""})
			case it.Kind == "col":
				header = append(header, outCol{it.Col.Name, ref.ID()})
			default:
				header = append(header, outCol{"?", ""})
			}
		}
		if len(q.Items) == 0 {
			q.Items = []SelItem{{Kind: "star"}}
			for _, c := range t.Cols {
				header = append(header, outCol{c.Name, ref.ID()})
			}
		}
	}
	if rapid.IntRange(0, 3).Draw(rt, "haswhere") > 0 {
		q.Where = Where(rt, t, false, "")
		if q.Where != nil && ref.Alias != "" {
			// qualify some operands through the alias
			for i := range q.Where.Or {
				for j := range q.Where.Or[i] {
					if rapid.IntRange(0, 3).Draw(rt, "wq") == 0 {
						if q.Where.Or[i][j].L.Lit == nil {
							q.Where.Or[i][j].L.Qual = ref.ID()
						}
					}
				}
			}
		}
	}
	// ORDER BY keys must be named in the output, unambiguously
	count := map[string]int{}
	for _, h := range header {
		count[h.name]++
	}
	nkeys := rapid.SampledFrom([]int{0, 0, 1, 1, 2, 3}).Draw(rt, "nkeys")
	used := map[string]bool{}
	for i := 0; i < nkeys; i++ {
		h := header[rapid.IntRange(0, len(header)-1).Draw(rt, "key")]
		if h.name == "?" || count[h.name] != 1 || used[h.name] {
			continue
		}
		used[h.name] = true
		k := OrderKey{Col: ColRef{Name: h.name}, Dir: rapid.SampledFrom([]string{"", "asc", "desc", "desc"}).Draw(rt, "dir")}
		if h.qual != "" && rapid.IntRange(0, 3).Draw(rt, "keyqual") == 0 {
			k.Col.Qual = h.qual
		}
		q.OrderBy = append(q.OrderBy, k)
	}
	n := len(t.Rows)
	// (the 'no limit' idiom LIMIT <largest integer> OFFSET m included)
	cands := []int{0, 1, 2, n - 1, n, n + 1, n / 2, 100, 1, 2, n / 2, 9223372036854775807, 9223372036854775806, 2147483648, 4294967296}
	pick := func(label string) *int {
		v := rapid.SampledFrom(cands).Draw(rt, label)
		if v < 0 {
			v = 0
		}
		return &v
	}
	if rapid.IntRange(0, 2).Draw(rt, "haslimit") == 0 {
		q.Limit = pick("limit")
	}
	if rapid.IntRange(0, 2).Draw(rt, "hasoffset") == 0 {
		q.Offset = pick("offset")
	}
	q.LimitFirst = rapid.Bool().Draw(rt, "limitfirst")
	return q
}

var _ = fmt.Sprint

// JoinTables draws 1-3 small tables for join queries: every table has an INT
// key column over a tiny domain (duplicates, unmatched rows) and 0-2 further
// columns; some column names are shared between tables, some are unique.
func JoinTables(rt *rapid.T) []model.Stmt {
	var out []model.Stmt
	n := rapid.IntRange(1, 3).Draw(rt, "ntables")
	for ti := 0; ti < n; ti++ {
		name := fmt.Sprintf("t%d", ti)
		cols := []model.Col{{Name: "k", Type: model.TInt}}
		if rapid.Bool().Draw(rt, "hasv") {
			cols = append(cols, model.Col{Name: "v", Type: model.TInt})
		}
		if rapid.IntRange(0, 2).Draw(rt, "hass") > 0 {
			// a string column for composite join keys
			cols = append(cols, model.Col{Name: "s", Type: model.TVarchar, Len: 8})
		}
		// a column only this table has
		cols = append(cols, model.Col{Name: fmt.Sprintf("u%d", ti), Type: model.ColType(rapid.SampledFrom([]int{0, 1}).Draw(rt, "utype")), Len: 16})
		create := model.Stmt{Kind: "create", Table: name, Cols: cols}
		create.SQL = RenderStmt(Plain(), create)
		out = append(out, create)
		nrows := rapid.SampledFrom([]int{0, 1, 2, 3, 4, 6, 9, 12}).Draw(rt, "nrows")
		if rapid.IntRange(0, 59).Draw(rt, "bigside") == 31 {
			// now and then one input is large enough for whatever an executor does differently for
			// inputs beyond a few dozen rows
			nrows = rapid.SampledFrom([]int{32, 33, 63, 64, 65, 100}).Draw(rt, "nrows_big")
		}
		if nrows > 0 {
			s := model.Stmt{Kind: "insert", Table: name}
			for i := 0; i < nrows; i++ {
				var row []model.Val
				for _, c := range cols {
					switch {
					case c.Type == model.TInt:
						// few distinct keys (they repeat, rows stay unmatched); 1/10/11 next to the
						// strings "01"/"1"/"0" give composite keys that coincide when printed side by side
						if nrows > 12 && rapid.Bool().Draw(rt, "widekey") {
							// (a large input has more distinct keys, or every join over it explodes)
							row = append(row, model.Int(int64(rapid.IntRange(0, nrows/3).Draw(rt, "kvw"))))
							continue
						}
						row = append(row, model.Int(rapid.SampledFrom([]int64{0, 1, 2, 3, 1, 10, 11, 2}).Draw(rt, "kv")))
					case c.Name == "s":
						row = append(row, model.Str(rapid.SampledFrom([]string{"1", "01", "0", "10", "", "a", "1 "}).Draw(rt, "ssv")))
					default:
						row = append(row, model.Str(rapid.SampledFrom([]string{"a", "b", ""}).Draw(rt, "sv")))
					}
				}
				s.Rows = append(s.Rows, row)
			}
			s.SQL = RenderStmt(Plain(), s)
			out = append(out, s)
		}
	}
	return out
}

// JoinQuery draws a chain of 1-2 joins over the tables of db. With
// misaddress=true it may address a column in a way that must be rejected
// (name-qualified although the table has an alias, unqualified although the
// name exists on both sides).
func JoinQuery(rt *rapid.T, db *model.DB, misaddress bool) Select {
	names := db.TableNames()
	pick := func(label string) *model.Table {
		return db.Tables[names[rapid.IntRange(0, len(names)-1).Draw(rt, label)]]
	}
	nj := rapid.SampledFrom([]int{1, 1, 1, 2, 2}).Draw(rt, "njoins")
	type side struct {
		t      *model.Table
		ref    TableRef
		padded bool
	}
	var sides []side
	usedID := map[string]bool{}
	mkRef := func(t *model.Table, forceAlias bool) TableRef {
		r := TableRef{Name: t.Name}
		if forceAlias || usedID[t.Name] || rapid.IntRange(0, 2).Draw(rt, "alias") == 0 {
			for _, a := range []string{"x", "y", "z", "w"} {
				if !usedID[a] {
					r.Alias = a
					break
				}
			}
		}
		usedID[r.ID()] = true
		return r
	}
	first := pick("t_first")
	sides = append(sides, side{t: first, ref: mkRef(first, false)})
	q := Select{From: &sides[0].ref}
	colOf := func(s side, label string, intOnly bool) (model.Operand, model.ColType) {
		var cands []int
		for i, c := range s.t.Cols {
			if !intOnly || c.Type == model.TInt {
				cands = append(cands, i)
			}
		}
		c := s.t.Cols[cands[rapid.IntRange(0, len(cands)-1).Draw(rt, label)]]
		return model.Operand{Qual: s.ref.ID(), Col: c.Name}, c.Type
	}
	for ji := 0; ji < nj; ji++ {
		rt2 := pick("t_next")
		// joining a table to itself needs distinct aliases
		same := false
		for _, s := range sides {
			if s.t == rt2 && s.ref.Alias == "" {
				same = true
			}
		}
		if same {
			// give the earlier occurrence no chance to collide: alias the new one
		}
		r := side{t: rt2, ref: mkRef(rt2, same)}
		jt := rapid.SampledFrom([]string{"inner", "inner", "left", "right"}).Draw(rt, "jtype")
		// ON: comparisons between a never-padded earlier table (or the new table) and the new table
		var avail []side
		for _, s := range sides {
			if !s.padded {
				avail = append(avail, s)
			}
		}
		on := &model.Cond{}
		ncmp := rapid.SampledFrom([]int{1, 1, 2}).Draw(rt, "ncmp")
		var conj []model.Cmp
		hasS := func(t *model.Table) bool { return t.ColIdx("s") >= 0 }
		for k := 0; k < ncmp; k++ {
			if rapid.IntRange(0, 11).Draw(rt, "onconst") == 0 {
				// a condition that mentions no column: true or false for every pair alike
				a, b := model.Int(int64(rapid.IntRange(0, 2).Draw(rt, "onca"))), model.Int(int64(rapid.IntRange(0, 2).Draw(rt, "oncb")))
				conj = append(conj, model.Cmp{L: model.Operand{Lit: &a}, Op: rapid.SampledFrom([]string{"=", "=", "!=", "<"}).Draw(rt, "oncop"), R: model.Operand{Lit: &b}})
				continue
			}
			if r.t.Name == "sys_schema" && rapid.Bool().Draw(rt, "oncat") {
				// the catalog joined to itself on a name column
				var cands []side
				for _, sd := range avail {
					if sd.t.Name == "sys_schema" {
						cands = append(cands, sd)
					}
				}
				if len(cands) > 0 {
					col := rapid.SampledFrom([]string{"field_name", "table_name"}).Draw(rt, "oncatcol")
					conj = append(conj, model.Cmp{L: model.Operand{Qual: cands[0].ref.ID(), Col: col}, Op: "=", R: model.Operand{Qual: r.ref.ID(), Col: col}})
					continue
				}
			}
			if hasS(r.t) && rapid.IntRange(0, 2).Draw(rt, "ons") == 0 {
				// string component of a composite key: s = s against an earlier, never-padded table
				var cands []side
				for _, sd := range avail {
					if hasS(sd.t) {
						cands = append(cands, sd)
					}
				}
				if len(cands) > 0 {
					ls := cands[rapid.IntRange(0, len(cands)-1).Draw(rt, "onsl")]
					l, rr := model.Operand{Qual: ls.ref.ID(), Col: "s"}, model.Operand{Qual: r.ref.ID(), Col: "s"}
					if rapid.Bool().Draw(rt, "onsswap") {
						l, rr = rr, l
					}
					conj = append(conj, model.Cmp{L: l, Op: rapid.SampledFrom([]string{"=", "=", "=", "!="}).Draw(rt, "onsop"), R: rr})
					continue
				}
			}
			var l model.Operand
			padEq := false
			if len(avail) < len(sides) && rapid.IntRange(0, 2).Draw(rt, "onpadded") == 0 {
				// equality against a column of a NULL-padded table: never true for the padded rows
				var padded []side
				for _, s := range sides {
					if s.padded {
						padded = append(padded, s)
					}
				}
				l, _ = colOf(padded[rapid.IntRange(0, len(padded)-1).Draw(rt, "onpl")], "onlcol", true)
				padEq = true
			} else if len(avail) > 0 {
				l, _ = colOf(avail[rapid.IntRange(0, len(avail)-1).Draw(rt, "onl")], "onlcol", true)
			} else {
				l, _ = colOf(r, "onlcol", true)
			}
			var rr model.Operand
			if rapid.IntRange(0, 5).Draw(rt, "onlit") == 0 {
				v := model.Int(int64(rapid.IntRange(0, 3).Draw(rt, "onlitv")))
				rr = model.Operand{Lit: &v}
			} else {
				rr, _ = colOf(r, "onrcol", true)
			}
			op := rapid.SampledFrom([]string{"=", "=", "=", "=", "<", "!=", ">="}).Draw(rt, "onop")
			if padEq {
				op = "="
				if rr.Lit != nil {
					rr, _ = colOf(r, "onrcol2", true)
				}
			}
			if rapid.Bool().Draw(rt, "onswap") {
				l, rr = rr, l
				op = flipOp(op)
			}
			conj = append(conj, model.Cmp{L: l, Op: op, R: rr})
		}
		if ncmp == 2 && rapid.Bool().Draw(rt, "onor") {
			on.Or = [][]model.Cmp{{conj[0]}, {conj[1]}}
		} else {
			on.Or = [][]model.Cmp{conj}
		}
		q.Joins = append(q.Joins, Join{Type: jt, InnerKW: jt == "inner" && rapid.Bool().Draw(rt, "innerkw"), Table: r.ref, On: on})
		switch jt {
		case "left":
			r.padded = true
		case "right":
			for i := range sides {
				sides[i].padded = true
			}
		}
		sides = append(sides, r)
	}
	// the FROM pointer must stay valid
	q.From = &TableRef{Name: sides[0].ref.Name, Alias: sides[0].ref.Alias}
	// select list
	if rapid.IntRange(0, 2).Draw(rt, "star") == 0 {
		q.Items = []SelItem{{Kind: "star"}}
	} else {
		n := rapid.IntRange(1, 4).Draw(rt, "nitems")
		for i := 0; i < n; i++ {
			s := sides[rapid.IntRange(0, len(sides)-1).Draw(rt, "itemside")]
			o, _ := colOf(s, "itemcol", false)
			q.Items = append(q.Items, SelItem{Kind: "col", Col: &ColRef{Qual: o.Qual, Name: o.Col}})
		}
	}
	// optional WHERE on a never-padded column
	var solid []side
	for _, s := range sides {
		if !s.padded {
			solid = append(solid, s)
		}
	}
	if len(solid) > 0 && rapid.IntRange(0, 2).Draw(rt, "haswhere") == 0 {
		o, _ := colOf(solid[rapid.IntRange(0, len(solid)-1).Draw(rt, "wside")], "wcol", true)
		v := model.Int(int64(rapid.IntRange(0, 3).Draw(rt, "wv")))
		q.Where = &model.Cond{Or: [][]model.Cmp{{{L: o, Op: rapid.SampledFrom([]string{"=", "!=", "<", ">="}).Draw(rt, "wop"), R: model.Operand{Lit: &v}}}}}
	}
	// unqualified addressing of columns that are unique across the join
	nameCount := map[string]int{}
	for _, s := range sides {
		for _, c := range s.t.Cols {
			nameCount[c.Name]++
		}
	}
	strip := func(o *model.Operand) {
		if o.Lit == nil && nameCount[o.Col] == 1 && rapid.IntRange(0, 2).Draw(rt, "strip") == 0 {
			o.Qual = ""
		}
	}
	for ji := range q.Joins {
		for i := range q.Joins[ji].On.Or {
			for j := range q.Joins[ji].On.Or[i] {
				// a column is only unique for ON if it is unique among the tables joined so far;
				// keep it simple: strip only names unique across the whole query
				strip(&q.Joins[ji].On.Or[i][j].L)
				strip(&q.Joins[ji].On.Or[i][j].R)
			}
		}
	}
	for i := range q.Items {
		if q.Items[i].Kind == "col" && nameCount[q.Items[i].Col.Name] == 1 && rapid.IntRange(0, 2).Draw(rt, "stripitem") == 0 {
			q.Items[i].Col.Qual = ""
		}
	}
	if misaddress {
		// (addressing an aliased table through its name is not generated: the property
		// says the alias works, not that the name must stop working)
		switch rapid.SampledFrom([]int{0, 0, 2, 3}).Draw(rt, "mis") {
		case 3:
			// two occurrences under ONE name - the same table twice without aliases, the same alias
			// twice, an alias that is another joined table's name - and a column both have, unqualified:
			// nothing says which occurrence is meant
			t := sides[0].t
			a, b := TableRef{Name: t.Name}, TableRef{Name: t.Name}
			switch rapid.IntRange(0, 2).Draw(rt, "mis3") {
			case 1:
				a.Alias, b.Alias = "x", "x"
			case 2:
				if len(sides) > 1 && sides[1].t.Name != t.Name {
					a = TableRef{Name: sides[1].t.Name, Alias: t.Name}
				}
			}
			one, two := model.Int(1), model.Int(1)
			col := t.Cols[0].Name
			q = Select{From: &a, Joins: []Join{{Type: rapid.SampledFrom([]string{"inner", "left", "right"}).Draw(rt, "mis3jt"), Table: b,
				On: &model.Cond{Or: [][]model.Cmp{{{L: model.Operand{Lit: &one}, Op: "=", R: model.Operand{Lit: &two}}}}}}}}
			switch rapid.IntRange(0, 2).Draw(rt, "mis3where") {
			case 0:
				q.Items = []SelItem{{Kind: "col", Col: &ColRef{Name: col}}}
			case 1:
				q.Items = []SelItem{{Kind: "star"}}
				v := model.Int(1)
				q.Where = &model.Cond{Or: [][]model.Cmp{{{L: model.Operand{Col: col}, Op: "=", R: model.Operand{Lit: &v}}}}}
			default:
				q.Items = []SelItem{{Kind: "star"}}
				q.Joins[0].On = &model.Cond{Or: [][]model.Cmp{{{L: model.Operand{Col: col}, Op: "=", R: model.Operand{Lit: &one}}}}}
			}
			return q
		case 0: // unqualified although the name exists on both sides
			for n, c := range nameCount {
				if c > 1 {
					where := rapid.IntRange(0, 2).Draw(rt, "miswhere")
					switch {
					case where == 0 && len(q.Items) > 0 && q.Items[0].Kind == "col":
						q.Items[0].Col = &ColRef{Name: n}
					case where == 1:
						v := model.Int(1)
						q.Where = &model.Cond{Or: [][]model.Cmp{{{L: model.Operand{Col: n}, Op: "=", R: model.Operand{Lit: &v}}}}}
					default:
						// in any comparison of the last ON condition, not only the first
						on := q.Joins[len(q.Joins)-1].On
						oi := rapid.IntRange(0, len(on.Or)-1).Draw(rt, "misor")
						ci := rapid.IntRange(0, len(on.Or[oi])-1).Draw(rt, "misand")
						if rapid.Bool().Draw(rt, "misright") {
							on.Or[oi][ci].R = model.Operand{Col: n}
						} else {
							on.Or[oi][ci].L = model.Operand{Col: n}
						}
					}
					break
				}
			}
		case 1: // name-qualified although the table has an alias
			for _, s := range sides {
				if s.ref.Alias != "" && !usedID[s.ref.Name] {
					q.Items = []SelItem{{Kind: "col", Col: &ColRef{Qual: s.ref.Name, Name: s.t.Cols[0].Name}}}
					break
				}
			}
		case 2: // a column that does not exist
			q.Items = []SelItem{{Kind: "col", Col: &ColRef{Qual: sides[0].ref.ID(), Name: "nosuch"}}}
		}
	}
	return q
}

// ---------------------------------------------------------------- aggregates (C07)

// AggTables draws the tables for aggregate queries: t0(g1 INT, g2 VARCHAR,
// n INT nullable, v INT, w BIGINT) with grouping values chosen to collide when
// printed and concatenated, and optionally t1(g1 INT, z INT) for joins.
func AggTables(rt *rapid.T) []model.Stmt {
	var out []model.Stmt
	t0 := model.Stmt{Kind: "create", Table: "t0", Cols: []model.Col{
		{Name: "g1", Type: model.TInt}, {Name: "g2", Type: model.TVarchar, Len: 16}, {Name: "n", Type: model.TInt},
		{Name: "v", Type: model.TInt}, {Name: "w", Type: model.TBigInt}, {Name: "g3", Type: model.TVarchar, Len: 16}}}
	// a boolean and / or a BIGINT grouping column (the BIGINT's values are neighbours beyond 2^53 and at the ends of
	// the range): the table has six, seven or eight columns - widths matter where rows are merged and copied
	hasF, hasH := rapid.Bool().Draw(rt, "hasf"), rapid.Bool().Draw(rt, "hash")
	if hasF {
		t0.Cols = append(t0.Cols, model.Col{Name: "f", Type: model.TBool})
	}
	if hasH {
		t0.Cols = append(t0.Cols, model.Col{Name: "h", Type: model.TBigInt})
	}
	t0.SQL = RenderStmt(Plain(), t0)
	out = append(out, t0)
	nrows := rapid.SampledFrom([]int{0, 1, 2, 3, 4, 5, 8, 12, 20, 40, 60}).Draw(rt, "nrows")
	big := rapid.Bool().Draw(rt, "bigvals")
	// now and then a grouping column holds nothing but NULLs
	allNull := rapid.IntRange(0, 9).Draw(rt, "allnull") == 0
	for i := 0; i < nrows; i++ {
		row := []model.Val{}
		if rapid.IntRange(0, 7).Draw(rt, "g1null") == 0 {
			row = append(row, model.Null()) // also the first column of the table may hold NULL
		} else {
			row = append(row, model.Int(rapid.SampledFrom([]int64{1, 2, 3, 12, 23, 123}).Draw(rt, "g1")))
		}
		// grouping strings that collide when printed bare, joined or comma-separated; NULL next to "<nil>"
		if rapid.IntRange(0, 5).Draw(rt, "g2null") == 0 {
			row = append(row, model.Null())
		} else {
			if rapid.IntRange(0, 7).Draw(rt, "g2bytes") == 0 {
				// strings that are not UTF-8 (a Latin-1 export): distinct byte strings are distinct groups
				row = append(row, model.Bytes([]byte(rapid.SampledFrom([]string{"M\xfcller", "M\xf6ller", "\xff", "\xfe", "M\ufffdller", "a\x00", "a"}).Draw(rt, "g2b"))))
			} else {
				row = append(row, model.Str(rapid.SampledFrom([]string{"1", "12", "2", "", "<nil>", "true", "23", "3", "a,b", "a", "1,2", ","}).Draw(rt, "g2")))
			}
		}
		if allNull || rapid.IntRange(0, 2).Draw(rt, "nnull") == 0 {
			row = append(row, model.Null())
		} else {
			row = append(row, model.Int(int64(rapid.IntRange(0, 3).Draw(rt, "n"))))
		}
		if big {
			row = append(row, model.Int(rapid.Int64Range(-2147483648, 2147483647).Draw(rt, "v")), model.Int(rapid.Int64Range(-1<<40, 1<<40).Draw(rt, "w")))
		} else {
			row = append(row, model.Int(int64(rapid.IntRange(0, 3).Draw(rt, "v"))), model.Int(int64(rapid.IntRange(-3, 9).Draw(rt, "w"))))
		}
		row = append(row, model.Str(rapid.SampledFrom([]string{"b", "a,b", "", "2", "b,", ",b", "nil"}).Draw(rt, "g3")))
		if !hasF {
		} else if rapid.IntRange(0, 5).Draw(rt, "fnull") == 0 {
			row = append(row, model.Null())
		} else {
			row = append(row, model.Bool(rapid.Bool().Draw(rt, "f")))
		}
		if !hasH {
		} else if rapid.IntRange(0, 7).Draw(rt, "hnull") == 0 {
			row = append(row, model.Null())
		} else {
			row = append(row, model.Int(rapid.SampledFrom([]int64{0, 1, 1 << 53, 1<<53 + 1, 1<<53 + 2, -(1 << 53), -(1 << 53) - 1,
				9223372036854775807, 9223372036854775806, -9223372036854775808, -9223372036854775807, 4294967296, 4294967297}).Draw(rt, "h")))
		}
		out = append(out, model.Stmt{Kind: "insert", Table: "t0", Rows: [][]model.Val{row}}) // direct values: NULL and negatives
	}
	if rapid.Bool().Draw(rt, "hast1") {
		t1 := model.Stmt{Kind: "create", Table: "t1", Cols: []model.Col{{Name: "g1", Type: model.TInt}, {Name: "z", Type: model.TInt}}}
		t1.SQL = RenderStmt(Plain(), t1)
		out = append(out, t1)
		for i := rapid.IntRange(0, 6).Draw(rt, "nrows1"); i > 0; i-- {
			s := model.Stmt{Kind: "insert", Table: "t1", Rows: [][]model.Val{{
				model.Int(rapid.SampledFrom([]int64{1, 2, 3, 12}).Draw(rt, "g1b")), model.Int(int64(rapid.IntRange(0, 5).Draw(rt, "z")))}}}
			s.SQL = RenderStmt(Plain(), s)
			out = append(out, s)
		}
	}
	return out
}

// AggQuery draws an aggregate query whose grouping columns all appear in the
// select list, referenced in GROUP BY by name, qualified name or alias.
func AggQuery(rt *rapid.T, db *model.DB) Select {
	q := Select{}
	ref := TableRef{Name: "t0"}
	if rapid.IntRange(0, 2).Draw(rt, "talias") == 0 {
		ref.Alias = "x"
	}
	q.From = &ref
	joined := db.Tables["t1"] != nil && rapid.IntRange(0, 2).Draw(rt, "join") == 0
	if joined {
		r2 := TableRef{Name: "t1"}
		if rapid.Bool().Draw(rt, "talias2") {
			r2.Alias = "y"
		}
		q.Joins = []Join{{Type: rapid.SampledFrom([]string{"inner", "inner", "left"}).Draw(rt, "jtype"), Table: r2,
			On: &model.Cond{Or: [][]model.Cmp{{{L: model.Operand{Qual: ref.ID(), Col: "g1"}, Op: "=", R: model.Operand{Qual: r2.ID(), Col: "g1"}}}}}}}
	}
	needQual := func(name string) bool { return joined && name == "g1" }
	// shadow: every column reference is qualified and one grouping column's alias
	// is the bare name of another grouping column; the qualified GROUP BY
	// references still say unambiguously which column is meant
	shadow := rapid.IntRange(0, 5).Draw(rt, "shadow") == 0
	colRef := func(name string) ColRef {
		c := ColRef{Name: name}
		if name == "z" {
			c.Qual = q.Joins[0].Table.ID() // t1's own column
		} else if shadow || needQual(name) || rapid.IntRange(0, 2).Draw(rt, "qual") == 0 {
			c.Qual = ref.ID()
		}
		return c
	}
	// grouping columns
	ng := rapid.SampledFrom([]int{0, 0, 0, 1, 1, 1, 2, 2, 2, 3, 3, 4, 5, 6}).Draw(rt, "ngroup")
	gpool := []string{"g1", "g2", "n", "g3"}
	ccols := []string{"n", "g2", "v", "g1", "g1", "g3"}
	for _, extra := range []string{"f", "h"} {
		if db.Tables["t0"].ColIdx(extra) >= 0 {
			gpool = append(gpool, extra)
			ccols = append(ccols, extra)
		}
	}
	if joined {
		gpool = append(gpool, "z")
	}
	if ng > len(gpool) {
		ng = len(gpool)
	}
	gcols := rapid.Permutation(gpool).Draw(rt, "gperm")[:ng]
	shadow = shadow && ng >= 2
	type item struct {
		it  SelItem
		grp bool
	}
	var items []item
	aliases := []string{"p", "q", "r", "s9", "p5", "q6", "r7"}
	for gi, g := range gcols {
		c := colRef(g)
		it := SelItem{Kind: "col", Col: &c}
		if rapid.IntRange(0, 2).Draw(rt, "galias") == 0 {
			it.Alias = aliases[gi]
			it.UseAS = rapid.Bool().Draw(rt, "gas")
		}
		if shadow && gi == 0 {
			it.Alias = gcols[1+rapid.IntRange(0, ng-2).Draw(rt, "shadowof")]
			it.UseAS = rapid.Bool().Draw(rt, "gas2")
			q.AmbigOK = true
		}
		items = append(items, item{it, true})
	}
	na := rapid.IntRange(1, 3).Draw(rt, "naggr")
	if rapid.IntRange(0, 9).Draw(rt, "longlist") == 0 {
		// a long select list: the same few aggregates many times over
		na = rapid.SampledFrom([]int{7, 8, 9, 10, 11, 12, 15, 16, 17, 24, 33}).Draw(rt, "naggr_long")
	}
	for i := 0; i < na; i++ {
		it := SelItem{}
		switch rapid.SampledFrom([]string{"count*", "countcol", "avg", "avg"}).Draw(rt, "aggr") {
		case "count*":
			it.Kind = "count"
		case "countcol":
			c := colRef(rapid.SampledFrom(ccols).Draw(rt, "ccol"))
			it.Kind, it.Col = "count", &c
		default:
			c := colRef(rapid.SampledFrom([]string{"v", "w", "v"}).Draw(rt, "acol"))
			it.Kind, it.Col = "avg", &c
		}
		if rapid.IntRange(0, 3).Draw(rt, "aalias") == 0 {
			it.Alias = fmt.Sprintf("agg%d", i)
			it.UseAS = rapid.Bool().Draw(rt, "aas")
		}
		items = append(items, item{it, false})
	}
	// any select-list position for the aggregates
	order := rapid.Permutation(intRange(len(items))).Draw(rt, "itemperm")
	for _, i := range order {
		q.Items = append(q.Items, items[i].it)
		if items[i].grp {
			it := items[i].it
			var g ColRef
			gref := rapid.IntRange(0, 2).Draw(rt, "gref")
			if shadow {
				gref = 1
			}
			switch gref {
			case 0:
				g = ColRef{Name: it.Col.Name} // by name
			case 1:
				g = *it.Col // exactly as selected (qualified if it was)
			default:
				if it.Alias != "" {
					g = ColRef{Name: it.Alias}
				} else {
					g = ColRef{Name: it.Col.Name}
				}
			}
			q.GroupBy = append(q.GroupBy, g)
		}
	}
	if len(q.GroupBy) > 1 && rapid.Bool().Draw(rt, "gshuffle") {
		q.GroupBy[0], q.GroupBy[len(q.GroupBy)-1] = q.GroupBy[len(q.GroupBy)-1], q.GroupBy[0]
	}
	if rapid.IntRange(0, 3).Draw(rt, "haslimit") == 0 {
		// the window applies to the aggregated rows, never to the input
		if rapid.Bool().Draw(rt, "lim") {
			v := rapid.SampledFrom([]int{0, 1, 1, 2, 3, 5, 100}).Draw(rt, "limit")
			q.Limit = &v
		}
		if q.Limit == nil || rapid.IntRange(0, 2).Draw(rt, "off") == 0 {
			v := rapid.SampledFrom([]int{0, 1, 1, 2, 4}).Draw(rt, "offset")
			q.Offset = &v
		}
		q.LimitFirst = rapid.Bool().Draw(rt, "limitfirst")
	}
	if !shadow && len(gcols) > 0 && rapid.IntRange(0, 3).Draw(rt, "hasorder") == 0 {
		// ORDER BY over grouping columns, addressed by their heading (the alias, else the column name):
		// only columns without NULLs (where NULLs sort is nobody's promise) and unique headings
		heads := map[string]int{}
		for _, it := range q.Items {
			if it.Kind == "col" {
				h := it.Col.Name
				if it.Alias != "" {
					h = it.Alias
				}
				heads[h]++
			}
		}
		var keys []OrderKey
		for _, it := range q.Items {
			if it.Kind != "col" {
				continue
			}
			h := it.Col.Name
			if it.Alias != "" {
				h = it.Alias
			}
			src := db.Tables["t0"]
			if it.Col.Name == "z" {
				src = db.Tables["t1"]
				if q.Joins[0].Type != "inner" {
					continue
				}
			}
			ci, nullFree := -1, true
			for i, c := range src.Cols {
				if c.Name == it.Col.Name {
					ci = i
				}
			}
			for _, r := range src.Rows {
				if r.Vals[ci] == nil {
					nullFree = false
				}
			}
			if heads[h] != 1 || !nullFree || src.Cols[ci].Type == model.TBool {
				continue
			}
			keys = append(keys, OrderKey{Col: ColRef{Name: h}, Dir: rapid.SampledFrom([]string{"", "asc", "desc"}).Draw(rt, "odir")})
		}
		if len(keys) > 0 {
			keys = rapid.Permutation(keys).Draw(rt, "operm")
			q.OrderBy = keys[:rapid.IntRange(1, len(keys)).Draw(rt, "nokeys")]
		}
	}
	if rapid.IntRange(0, 2).Draw(rt, "haswhere") == 0 {
		v := model.Int(int64(rapid.SampledFrom([]int{0, 1, 2, 3, 12, 999999}).Draw(rt, "wv")))
		q.Where = &model.Cond{Or: [][]model.Cmp{{{L: model.Operand{Qual: ref.ID(), Col: rapid.SampledFrom([]string{"v", "w"}).Draw(rt, "wcol")},
			Op: rapid.SampledFrom([]string{"=", "!=", "<", ">="}).Draw(rt, "wop"), R: model.Operand{Lit: &v}}}}}
	}
	return q
}
