package gen

import (
	"fmt"
	"strconv"
	"strings"

	"pgregory.net/rapid"

	"verif/harness/model"
)

// HistCfg bounds a generated DDL/DML history.
type HistCfg struct {
	MinStmts, MaxStmts int
	MaxTables          int
	MaxCols            int
	Direct             bool  // allow statements given as direct values (negative ints, bytes, NULL)
	RowCounts          []int // candidate sizes of multi-row inserts
	Small              bool  // small value domains everywhere (many equal values)
	FlushFlags         bool  // draw FlushAfter per statement
	NoDDLAfterStart    bool
	NoMutations        bool // no UPDATE / DELETE
	WhereNullable      bool
	NoWide             bool // never draw tables of 9-129 columns (checks whose caches are too small for their CREATE TABLE)
	// ReUse: now and then a USE of the database the history runs in ("d1", see props.DBName), spelled as it is or
	// in another letter case - database names are case-insensitive, the statement selects what is selected
	ReUse bool
}

// StrBudget is the largest string length such that a row holding strings of
// that length in every VARCHAR column still fits the 400-byte row limit.
func StrBudget(cols []model.Col) int {
	fixed, nv := 0, 0
	for _, c := range cols {
		fixed++
		switch c.Type {
		case model.TInt:
			fixed += 4
		case model.TBigInt:
			fixed += 8
		case model.TBool:
			fixed++
		case model.TVarchar:
			fixed += 4
			nv++
		}
	}
	if nv == 0 {
		return 0
	}
	return (model.MaxRowBytes - fixed) / nv
}

// padToMax rewrites the first non-NULL VARCHAR value of the row so that the
// row encodes to exactly model.MaxRowBytes (no-op when it has none).
func padToMax(cols []model.Col, row []model.Val) {
	vals := make([]interface{}, len(row))
	at := -1
	for i, v := range row {
		vals[i] = v.Go()
		if at < 0 && cols[i].Type == model.TVarchar && vals[i] != nil {
			at = i
		}
	}
	if at < 0 {
		return
	}
	vals[at] = ""
	room := model.MaxRowBytes - model.EncodedSize(cols, vals)
	if room < 0 {
		return
	}
	row[at] = model.Str(strings.Repeat("m", room))
}

// wideCounts: column counts around the sizes at which per-column bitmaps, fixed
// arrays and one-byte counters end.
var wideCounts = []int{9, 10, 16, 17, 31, 32, 33, 63, 64, 65, 100, 128, 129}

func Columns(t *rapid.T, maxCols int) []model.Col { return ColumnsW(t, maxCols, false) }

// ColumnsW is Columns with, when wide is set, one table in fourteen of 9-129
// columns. The column types of such a table are chosen so that a row with a
// value in every column still fits the row limit.
func ColumnsW(t *rapid.T, maxCols int, wide bool) []model.Col {
	isWide := wide && rapid.IntRange(0, 13).Draw(t, "widetable") == 0
	n := 0
	if isWide {
		n = rapid.SampledFrom(wideCounts).Draw(t, "nwide")
	} else {
		n = rapid.IntRange(1, maxCols).Draw(t, "ncols")
	}
	var cols []model.Col
	used := map[string]bool{}
	fixed := 0
	// (a VARCHAR is counted with 16 bytes of content: the small-domain strings are up to 6 bytes long)
	cost := map[model.ColType]int{model.TBool: 2, model.TInt: 5, model.TBigInt: 9, model.TVarchar: 21}
	for i := 0; i < n; i++ {
		name := Ident(t, "col", colPool)
		for used[name] {
			name = fmt.Sprintf("%s%d", name, i)
		}
		used[name] = true
		ct := model.ColType(rapid.IntRange(0, 3).Draw(t, "ctype"))
		if isWide {
			if rapid.IntRange(0, 2).Draw(t, "widebool") == 0 || fixed+cost[ct]+2*(n-1-i) > model.MaxRowBytes-12 {
				ct = model.TBool
			}
			fixed += cost[ct]
		}
		c := model.Col{Name: name, Type: ct}
		if ct == model.TVarchar {
			c.Len = rapid.SampledFrom([]int{1, 10, 32, 255, 400}).Draw(t, "vlen")
		}
		cols = append(cols, c)
	}
	return cols
}

// nonNullCols lists the columns of t that hold no NULL in any current row.
func nonNullCols(t *model.Table) []int {
	var out []int
	for ci := range t.Cols {
		ok := true
		for _, r := range t.Rows {
			if r.Vals[ci] == nil {
				ok = false
				break
			}
		}
		if ok {
			out = append(out, ci)
		}
	}
	return out
}

func opsFor(ct model.ColType) []string {
	if ct == model.TBool {
		return []string{"=", "!="}
	}
	return []string{"=", "!=", "<", "<=", ">", ">="}
}

// litFor draws a literal for comparisons against column ci of table t: mostly a
// value present in the column, so that conditions match some rows.
func litFor(rt *rapid.T, t *model.Table, ci int, direct bool) model.Val {
	if len(t.Rows) > 0 && rapid.IntRange(0, 9).Draw(rt, "lit_existing") < 7 {
		r := t.Rows[rapid.IntRange(0, len(t.Rows)-1).Draw(rt, "lit_row")]
		v := model.FromGo(r.Vals[ci])
		if v.T == "x" {
			// a text-safe string is kept as text so that it can be rendered
			if s := string(v.X); isTextSafe(s) {
				v = model.Str(s)
			}
		}
		if direct || (v.T != "x" && !(v.T == "i" && v.I < 0)) {
			return v
		}
	}
	return Value(rt, "lit", t.Cols[ci].Type, false, true, 8)
}

// isTextSafe says whether s can be written between single quotes: no control
// characters, quotes and backslashes only as part of a backslash unit.
func isTextSafe(s string) bool {
	rs := []rune(s)
	for i := 0; i < len(rs); i++ {
		r := rs[i]
		if r == '\\' {
			if i+1 >= len(rs) || !strings.ContainsRune(`'\"nt`, rs[i+1]) {
				return false
			}
			i++
			continue
		}
		if r == '\'' || r < 0x20 || r == 0x7f || r == 0xFFFD {
			return false
		}
	}
	return true
}

// Where draws a well-typed OR-of-ANDs condition over NULL-free columns of t,
// or nil when there is no such column.
func Where(rt *rapid.T, t *model.Table, direct bool, qual string) *model.Cond {
	cols := nonNullCols(t)
	if len(cols) == 0 {
		return nil
	}
	if rapid.IntRange(0, 11).Draw(rt, "inlist") == 0 {
		// the dialect's stand-in for IN: col = v1 OR col = v2 OR ... - where an operand may also be
		// another column
		ci := cols[rapid.IntRange(0, len(cols)-1).Draw(rt, "incol")]
		c := &model.Cond{}
		for k := rapid.IntRange(3, 6).Draw(rt, "inlen"); k > 0; k-- {
			l := model.Operand{Col: t.Cols[ci].Name, Qual: qual}
			var r model.Operand
			var same []int
			for _, cj := range cols {
				if cj != ci && comparable(t.Cols[cj].Type, t.Cols[ci].Type) {
					same = append(same, cj)
				}
			}
			if len(same) > 0 && rapid.IntRange(0, 3).Draw(rt, "incolcol") == 0 {
				r = model.Operand{Col: t.Cols[same[rapid.IntRange(0, len(same)-1).Draw(rt, "incol2")]].Name, Qual: qual}
			} else {
				v := litFor(rt, t, ci, direct)
				r = model.Operand{Lit: &v}
			}
			c.Or = append(c.Or, []model.Cmp{{L: l, Op: "=", R: r}})
		}
		return c
	}
	nor := rapid.SampledFrom([]int{1, 1, 1, 2, 2, 3}).Draw(rt, "nor")
	c := &model.Cond{}
	for i := 0; i < nor; i++ {
		nand := rapid.SampledFrom([]int{1, 1, 2, 2, 3}).Draw(rt, "nand")
		var conj []model.Cmp
		for j := 0; j < nand; j++ {
			ci := cols[rapid.IntRange(0, len(cols)-1).Draw(rt, "wcol")]
			ct := t.Cols[ci].Type
			op := rapid.SampledFrom(opsFor(ct)).Draw(rt, "wop")
			l := model.Operand{Col: t.Cols[ci].Name, Qual: qual}
			var r model.Operand
			// column-to-column comparison when another NULL-free column has a comparable type
			var same []int
			for _, cj := range cols {
				if cj != ci && comparable(t.Cols[cj].Type, ct) {
					same = append(same, cj)
				}
			}
			if len(same) > 0 && rapid.IntRange(0, 5).Draw(rt, "wcolcol") == 0 {
				r = model.Operand{Col: t.Cols[same[rapid.IntRange(0, len(same)-1).Draw(rt, "wcol2")]].Name, Qual: qual}
			} else {
				v := litFor(rt, t, ci, direct)
				if rapid.IntRange(0, 11).Draw(rt, "wmixed") == 0 {
					// a literal of ANOTHER type that prints like the value ('1001' against 1001): values of
					// different types are never equal - only = and != are defined for such a pair
					if mv, ok := otherTypeSameText(v); ok {
						v = mv
						op = rapid.SampledFrom([]string{"=", "!="}).Draw(rt, "wmixedop")
					}
				}
				r = model.Operand{Lit: &v}
			}
			if rapid.IntRange(0, 7).Draw(rt, "wswap") == 0 {
				l, r = r, l
				op = flipOp(op)
			}
			conj = append(conj, model.Cmp{L: l, Op: op, R: r})
		}
		c.Or = append(c.Or, conj)
	}
	return c
}

// otherTypeSameText returns a value of another type whose printed form is the
// same as v's, when there is one that SQL text can express.
func otherTypeSameText(v model.Val) (model.Val, bool) {
	switch v.T {
	case "i":
		if v.I >= 0 {
			return model.Str(strconv.FormatInt(v.I, 10)), true
		}
	case "b":
		return model.Str(strconv.FormatBool(v.B)), true
	case "s":
		if n, err := strconv.ParseInt(v.S, 10, 64); err == nil && n >= 0 && strconv.FormatInt(n, 10) == v.S {
			return model.Int(n), true
		}
		if v.S == "true" || v.S == "false" {
			return model.Bool(v.S == "true"), true
		}
	}
	return v, false
}

func comparable(a, b model.ColType) bool {
	ai := a == model.TInt || a == model.TBigInt
	bi := b == model.TInt || b == model.TBigInt
	return a == b || (ai && bi)
}

func flipOp(op string) string {
	switch op {
	case "<":
		return ">"
	case "<=":
		return ">="
	case ">":
		return "<"
	case ">=":
		return "<="
	}
	return op
}

// InsertRows draws n valid rows for table t. With a column list, omitted
// columns become NULL.
func InsertStmt(rt *rapid.T, t *model.Table, n int, direct, small bool) model.Stmt {
	s := model.Stmt{Kind: "insert", Table: t.Name}
	budget := StrBudget(t.Cols)
	colIdx := make([]int, len(t.Cols))
	for i := range colIdx {
		colIdx[i] = i
	}
	if rapid.IntRange(0, 2).Draw(rt, "collist") == 0 {
		// a permutation of a non-empty subset of the columns
		perm := rapid.Permutation(colIdx).Draw(rt, "colperm")
		k := rapid.IntRange(1, len(perm)).Draw(rt, "ncollist")
		colIdx = perm[:k]
		for _, ci := range colIdx {
			s.InsCols = append(s.InsCols, t.Cols[ci].Name)
		}
	}
	for i := 0; i < n; i++ {
		var row []model.Val
		for _, ci := range colIdx {
			c := t.Cols[ci]
			if direct && rapid.IntRange(0, 11).Draw(rt, "null") == 0 {
				row = append(row, model.Null())
				continue
			}
			row = append(row, Value(rt, "v", c.Type, direct, small, budget))
		}
		if !small && len(s.InsCols) == 0 && rapid.IntRange(0, 5).Draw(rt, "fullrow") == 0 {
			// a row of exactly the largest admissible size: pad its first string
			padToMax(t.Cols, row)
		}
		s.Rows = append(s.Rows, row)
	}
	return s
}

// History draws a history of valid statements, threading db (which is
// modified) so that every statement is valid in the state it executes in.
func History(rt *rapid.T, cfg HistCfg, db *model.DB) []model.Stmt {
	n := rapid.IntRange(cfg.MinStmts, cfg.MaxStmts).Draw(rt, "nstmts")
	var out []model.Stmt
	for len(out) < n {
		s, ok := NextStmt(rt, cfg, db)
		if !ok {
			continue
		}
		if k, err := db.Apply(s); k != model.OK || err != nil {
			panic(fmt.Sprintf("generator produced an invalid statement: %v %v: %s", k, err, s))
		}
		if cfg.FlushFlags {
			s.FlushAfter = rapid.IntRange(0, 3).Draw(rt, "flush") == 0
		}
		out = append(out, s)
	}
	return out
}

// NextStmt draws one valid statement for the current model state (the model
// is not modified).
func NextStmt(rt *rapid.T, cfg HistCfg, db *model.DB) (model.Stmt, bool) {
	names := db.TableNames()
	kind := "create"
	if cfg.ReUse && len(names) > 0 && rapid.IntRange(0, 24).Draw(rt, "reuse") == 0 {
		st := NewStyle(rt)
		return model.Stmt{Kind: "use", SQL: st.KW("USE") + st.SP() + rapid.SampledFrom([]string{"d1", "D1", "D1", "d1"}).Draw(rt, "reuse_name") + st.End()}, true
	}
	if len(names) > 0 {
		w := []string{"insert", "insert", "insert", "insert", "insert", "update", "update", "delete", "delete"}
		if cfg.NoMutations {
			w = []string{"insert", "insert", "insert"}
		}
		if len(names) < cfg.MaxTables && !cfg.NoDDLAfterStart {
			w = append(w, "create", "create")
		}
		kind = rapid.SampledFrom(w).Draw(rt, "kind")
	}
	direct := cfg.Direct && rapid.IntRange(0, 3).Draw(rt, "direct") == 0
	var s model.Stmt
	switch kind {
	case "create":
		return createStmt(rt, cfg.MaxCols, db, cfg.MaxCols >= 4 && !cfg.NoWide), true
	case "insert":
		t := db.Tables[names[rapid.IntRange(0, len(names)-1).Draw(rt, "tbl")]]
		n := rapid.SampledFrom(cfg.RowCounts).Draw(rt, "nrows")
		s = InsertStmt(rt, t, n, direct, cfg.Small)
	case "update":
		t := db.Tables[names[rapid.IntRange(0, len(names)-1).Draw(rt, "tbl")]]
		s = model.Stmt{Kind: "update", Table: t.Name}
		nset := rapid.IntRange(1, min(2, len(t.Cols))).Draw(rt, "nset")
		perm := rapid.Permutation(intRange(len(t.Cols))).Draw(rt, "setperm")
		budget := StrBudget(t.Cols)
		for _, ci := range perm[:nset] {
			var v model.Val
			if direct && rapid.IntRange(0, 9).Draw(rt, "setnull") == 0 {
				v = model.Null()
			} else {
				v = Value(rt, "setv", t.Cols[ci].Type, direct, cfg.Small, budget)
			}
			s.Set = append(s.Set, model.Assign{Col: t.Cols[ci].Name, Val: v})
		}
		if rapid.IntRange(0, 4).Draw(rt, "haswhere") > 0 {
			s.Where = Where(rt, t, direct, "")
		}
	case "delete":
		t := db.Tables[names[rapid.IntRange(0, len(names)-1).Draw(rt, "tbl")]]
		s = model.Stmt{Kind: "delete", Table: t.Name}
		if rapid.IntRange(0, 7).Draw(rt, "haswhere") > 0 {
			s.Where = Where(rt, t, direct, "")
		}
	}
	if s.Kind == "update" {
		// next to a row of the largest admissible size an UPDATE within the
		// per-column budget can still push that row over the limit: draw again
		if k, err := db.UpdateVerdict(s); err != nil || k != model.OK {
			return s, false
		}
	}
	if !direct || s.Kind == "create" {
		if !TextRenderable(s) {
			return s, false
		}
		s.SQL = RenderStmt(NewStyle(rt), s)
	}
	return s, true
}

// CreateStmt draws a CREATE TABLE for a table name not yet in db.
func CreateStmt(rt *rapid.T, maxCols int, db *model.DB) model.Stmt {
	return createStmt(rt, maxCols, db, false)
}

func createStmt(rt *rapid.T, maxCols int, db *model.DB, wide bool) model.Stmt {
	name := Ident(rt, "table", tablePool)
	if names := db.TableNames(); len(names) > 0 && rapid.IntRange(0, 7).Draw(rt, "casevariant") == 0 {
		// table names are case-sensitive: "Orders" next to "orders" is another table
		base := names[rapid.IntRange(0, len(names)-1).Draw(rt, "variantof")]
		for _, v := range []string{strings.ToUpper(base), strings.ToUpper(base[:1]) + base[1:], strings.ToLower(base)} {
			if v != base && db.Tables[v] == nil && okIdent(v) {
				name = v
				break
			}
		}
	}
	if names := db.TableNames(); len(names) > 0 && rapid.IntRange(0, 9).Draw(rt, "prefixvariant") == 0 {
		// a name that is a proper prefix of an existing table's name, or extends one
		base := names[rapid.IntRange(0, len(names)-1).Draw(rt, "prefixof")]
		cands := []string{base + "2", base + "_archive"}
		if len(base) > 1 {
			cands = append([]string{base[:len(base)-1], base[:1]}, cands...)
		}
		for _, v := range cands {
			if db.Tables[v] == nil && okIdent(v) && PlainIdent(v) {
				name = v
				break
			}
		}
	}
	for i := 0; db.Tables[name] != nil; i++ {
		name = fmt.Sprintf("%s_%d", name, i)
	}
	s := model.Stmt{Kind: "create", Table: name, Cols: ColumnsW(rt, maxCols, wide)}
	s.SQL = RenderStmt(NewStyle(rt), s)
	return s
}

// FailingInsert draws a single-row INSERT into t that must be refused: the row
// is one byte too large, or a column gets a value of the wrong type.
func FailingInsert(rt *rapid.T, t *model.Table) model.Stmt {
	s := model.Stmt{Kind: "insert", Table: t.Name, Fails: true}
	row := make([]model.Val, len(t.Cols))
	vals := make([]interface{}, len(t.Cols))
	sc := -1
	for i, c := range t.Cols {
		row[i] = Value(rt, "fv", c.Type, false, true, 4)
		vals[i] = row[i].Go()
		if c.Type == model.TVarchar && sc < 0 {
			sc = i
		}
	}
	if sc >= 0 && rapid.Bool().Draw(rt, "oversize") {
		vals[sc] = ""
		row[sc] = model.Str(strings.Repeat("o", model.MaxRowBytes+1-model.EncodedSize(t.Cols, vals)))
	} else {
		ci := rapid.IntRange(0, len(t.Cols)-1).Draw(rt, "badcol")
		if t.Cols[ci].Type == model.TVarchar {
			row[ci] = model.Int(5)
		} else {
			row[ci] = model.Str("five")
		}
	}
	s.Rows = [][]model.Val{row}
	s.SQL = RenderStmt(NewStyle(rt), s)
	return s
}

// FailingStmt draws a statement that must be refused: a FailingInsert into t, a
// CREATE TABLE of a table that exists, or a CREATE TABLE the catalog cannot
// record (a VARCHAR length beyond 32 bits, an over-long column name - whether
// those two are refused is the implementation's choice; callers drop the case
// when they are accepted).
func FailingStmt(rt *rapid.T, db *model.DB, t *model.Table) model.Stmt {
	switch rapid.IntRange(0, 6).Draw(rt, "failkind") {
	case 6:
		// CREATE DATABASE of the database the checks work in ("d1", see props.DBName), or of one of
		// the idle ones: it exists
		st := NewStyle(rt)
		name := rapid.SampledFrom([]string{"d1", "d1", "a_idle", "D1"}).Draw(rt, "faildb")
		return model.Stmt{Kind: "create_database", Table: name, Fails: true, SQL: st.KW("CREATE") + st.SP() + st.KW("DATABASE") + st.SP() + name + st.End()}
	case 0:
		s := model.Stmt{Kind: "create", Table: t.Name, Cols: Columns(rt, 3), Fails: true}
		s.SQL = RenderStmt(NewStyle(rt), s)
		return s
	case 1, 2:
		cols := Columns(rt, 4)
		k := rapid.IntRange(0, len(cols)-1).Draw(rt, "badcol")
		if rapid.Bool().Draw(rt, "badlen") {
			cols[k].Type, cols[k].Len = model.TVarchar, rapid.SampledFrom([]int{2147483648, 9999999999}).Draw(rt, "len")
		} else {
			cols[k].Name = "n" + strings.Repeat("x", rapid.IntRange(390, 420).Draw(rt, "namelen"))
		}
		name := "refused_tbl"
		for i := 0; db.Tables[name] != nil; i++ {
			name = fmt.Sprintf("refused_tbl%d", i)
		}
		s := model.Stmt{Kind: "create", Table: name, Cols: cols, Fails: true}
		s.SQL = RenderStmt(NewStyle(rt), s)
		return s
	}
	return FailingInsert(rt, t)
}

// TextInsert draws an n-row INSERT into t rendered as SQL text.
func TextInsert(rt *rapid.T, t *model.Table, n int, small bool) model.Stmt {
	s := InsertStmt(rt, t, n, false, small)
	s.SQL = RenderStmt(NewStyle(rt), s)
	return s
}

// MustApply applies a generated statement to the generator's model.
func MustApply(db *model.DB, s model.Stmt) {
	if k, err := db.Apply(s); k != model.OK || err != nil {
		panic(fmt.Sprintf("generator produced an invalid statement: %v %v: %s", k, err, s))
	}
}

func intRange(n int) []int {
	r := make([]int, n)
	for i := range r {
		r[i] = i
	}
	return r
}

func min(a, b int) int {
	if a < b {
		return a
	}
	return b
}
