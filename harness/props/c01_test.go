package props

// C01 - table contents always equal what the statement history implies.

import (
	"encoding/json"
	"fmt"
	"testing"

	"pgregory.net/rapid"

	"verif/harness/gen"
	"verif/harness/mk"
	"verif/harness/model"
	"verif/vlib"
)

type c01Case struct {
	// Age > 0: the database starts with the row-id and LSN counters of a database long in use (props.Ages)
	Age        int          `json:"age,omitempty"`
	Stmts      []model.Stmt `json:"stmts"`
	CheckEvery int          `json:"check_every"`
}

func c01Gen(rt *rapid.T) c01Case {
	big := Cfg.Tier == "thorough" && rapid.IntRange(0, 19).Draw(rt, "big") == 0
	cfg := gen.HistCfg{
		MinStmts: 5, MaxStmts: 40, MaxTables: 4, MaxCols: 5, Direct: true,
		RowCounts:  []int{1, 1, 1, 2, 3, 4, 5, 8, 9, 10, 17, 18},
		Small:      rapid.Bool().Draw(rt, "small"),
		FlushFlags: true,
		ReUse:      true,
	}
	switch rapid.IntRange(0, 9).Draw(rt, "profile") {
	case 0: // many tables: catalog splits
		cfg.MaxTables, cfg.MaxStmts, cfg.MaxCols = 12, 50, 4
	case 1: // few tables, many rows
		cfg.MaxTables, cfg.RowCounts = 2, []int{1, 4, 9, 17, 18, 33, 40}
	}
	if big {
		cfg.MaxTables, cfg.MinStmts, cfg.MaxStmts = 2, 30, 60
		cfg.RowCounts = []int{1, 9, 40, 80, 120}
	}
	db := model.NewDB()
	return c01Case{Age: DrawAge(rt), Stmts: gen.History(rt, cfg, db), CheckEvery: rapid.SampledFrom([]int{1, 1, 2, 3, 7}).Draw(rt, "every")}
}

// c01Labels computes, from the case alone, whether it is non-trivial.
func c01Labels(c c01Case) (nontrivial bool, labels []string) {
	inserted := map[string]int{}
	mutAt := map[string][]int{} // inserted-count at the time of each UPDATE/DELETE
	lastIns := ""
	switches := 0
	tables, cols := 0, 0
	for _, s := range c.Stmts {
		switch s.Kind {
		case "create":
			tables++
			cols += len(s.Cols)
			if len(s.Cols) >= 9 {
				labels = append(labels, fmt.Sprintf("wide-table(%s columns)", map[bool]string{false: "9-33", true: "63-129"}[len(s.Cols) > 33]))
			}
		case "insert":
			inserted[s.Table] += len(s.Rows)
			if lastIns != "" && lastIns != s.Table {
				switches++
			}
			lastIns = s.Table
		case "update", "delete":
			mutAt[s.Table] = append(mutAt[s.Table], inserted[s.Table])
		}
	}
	maxRows := 0
	for tb, n := range inserted {
		if n > maxRows {
			maxRows = n
		}
		for _, at := range mutAt[tb] {
			if at > 0 && SplitsAfter(n) > SplitsAfter(at) {
				nontrivial = true
				labels = append(labels, "mutation-then-split")
				break
			}
		}
	}
	if switches >= 2 {
		nontrivial = true
		labels = append(labels, "interleaved-inserts")
	}
	if tables >= 7 || cols >= 3 {
		labels = append(labels, "catalog-split")
		if tables >= 7 {
			nontrivial = true
			labels = append(labels, "sys_pages-split")
		}
	}
	switch {
	case maxRows >= 1165:
		labels = append(labels, "height>=3")
	case maxRows >= 9:
		labels = append(labels, "height=2")
	default:
		labels = append(labels, "height=1")
	}
	return
}

func c01Run(c c01Case, st *vlib.Stats) string {
	nt, labels := c01Labels(c)
	b, _ := json.Marshal(c)
	st.Record(b, nt, labels...)
	eng, err := OpenFresh("c01")
	if err != nil {
		return "setup failed: " + err.Error()
	}
	defer eng.Crash(true)
	if err := AgeDatabase(eng, c.Age); err != nil {
		return "advancing the counters failed: " + err.Error()
	}
	m := model.NewDB()
	tr := NewIDTracker()
	every := c.CheckEvery
	if every <= 0 {
		every = 1
	}
	for i, s := range c.Stmts {
		kind, merr := m.Apply(s)
		if merr != nil || kind != model.OK {
			return fmt.Sprintf("case is not valid in the model (statement %d: %v %v)", i, kind, merr)
		}
		if err := eng.ExecStmt(s); err != nil {
			return fmt.Sprintf("statement %d is valid but was refused: %v\n  %s", i, err, s)
		}
		if s.FlushAfter {
			if err := eng.Flush(); err != nil {
				return fmt.Sprintf("flush after statement %d failed: %v", i, err)
			}
		}
		if s.Kind == "use" {
			// the database was selected again: everything must still be there
			if msg := CompareAll(eng, m, tr); msg != "" {
				return fmt.Sprintf("after statement %d (%s): %s", i, s, msg)
			}
			continue
		}
		if (i+1)%every == 0 {
			// cheap while tables are small; otherwise only the touched table
			if msg := CompareTable(eng, m.Tables[s.Table], tr); msg != "" {
				return fmt.Sprintf("after statement %d (%s): %s", i, s, msg)
			}
		}
	}
	if msg := CompareAll(eng, m, tr); msg != "" {
		return "at the end of the history: " + msg
	}
	// the same again with every page written out and read back from the file
	if err := eng.Flush(); err != nil {
		return "final flush failed: " + err.Error()
	}
	eng.RS().VerifSetCacheSize(10000)
	if msg := CompareAll(eng, m, tr); msg != "" {
		return "at the end of the history, after flushing and reloading every page: " + msg
	}
	// and after the session switched to another database and back (the file is
	// closed and reopened without log replay)
	if err := Reopen(eng); err != nil {
		return "switching databases failed: " + err.Error()
	}
	if msg := CompareAll(eng, m, tr); msg != "" {
		return "at the end of the history, after USE of another database and back: " + msg
	}
	// and after the program was closed and started again
	if err := eng.Shutdown(); err != nil {
		return "clean shutdown failed: " + err.Error()
	}
	eng.Sess.RelationService = nil
	eng2, err := mk.Start(eng.Dir)
	if err != nil {
		return "start after a clean shutdown failed: " + err.Error()
	}
	defer eng2.Crash(true)
	if err := eng2.Exec("USE " + DBName); err != nil {
		return "USE after restart failed: " + err.Error()
	}
	if msg := CompareAll(eng2, m, tr); msg != "" {
		return "at the end of the history, after a clean shutdown and restart: " + msg
	}
	return ""
}

// c01BigCase is a fixed history that grows one table to three tree levels
// (the first internal-node split needs 1165 rows) next to a second table.
func c01BigCase(rows int) c01Case {
	var c c01Case
	mk := func(s model.Stmt) {
		s.SQL = gen.RenderStmt(gen.Plain(), s)
		c.Stmts = append(c.Stmts, s)
	}
	mk(model.Stmt{Kind: "create", Table: "big", Cols: []model.Col{{Name: "a", Type: model.TInt}, {Name: "s", Type: model.TVarchar, Len: 16}}})
	mk(model.Stmt{Kind: "create", Table: "side", Cols: []model.Col{{Name: "k", Type: model.TInt}}})
	n := 0
	for n < rows {
		ins := model.Stmt{Kind: "insert", Table: "big"}
		for i := 0; i < 100 && n < rows; i++ {
			ins.Rows = append(ins.Rows, []model.Val{model.Int(int64(n)), model.Str(fmt.Sprintf("v%d", n%7))})
			n++
		}
		ins.FlushAfter = n%500 == 0
		mk(ins)
		if n%300 == 0 {
			mk(model.Stmt{Kind: "insert", Table: "side", Rows: [][]model.Val{{model.Int(int64(n))}}})
			lo, hi := model.Int(int64(n-40)), model.Int(int64(n-30))
			mk(model.Stmt{Kind: "delete", Table: "big", Where: &model.Cond{Or: [][]model.Cmp{{
				{L: model.Operand{Col: "a"}, Op: ">=", R: model.Operand{Lit: &lo}}, {L: model.Operand{Col: "a"}, Op: "<", R: model.Operand{Lit: &hi}}}}}})
		}
	}
	// a delete whose matches are spread over every leaf of the (now three-level) tree
	three := model.Str("v3")
	mk(model.Stmt{Kind: "delete", Table: "big", Where: &model.Cond{Or: [][]model.Cmp{{{L: model.Operand{Col: "s"}, Op: "=", R: model.Operand{Lit: &three}}}}}})
	five := model.Str("v5")
	mk(model.Stmt{Kind: "update", Table: "big", Set: []model.Assign{{Col: "s", Val: model.Str("upd")}},
		Where: &model.Cond{Or: [][]model.Cmp{{{L: model.Operand{Col: "s"}, Op: "=", R: model.Operand{Lit: &five}}}}}})
	c.CheckEvery = 4
	return c
}

func TestC01(t *testing.T) {
	st := vlib.NewStats("C01")
	defer st.Write(Cfg, "C01")
	if Cfg.Replay == "" && Cfg.Shard <= 1 {
		rows := 1300
		if Cfg.Tier == "thorough" {
			rows = 3600
		}
		if Cfg.Shard == 1 {
			// past the first split of a NON-root internal page (1749 rows), with flushes on the way
			rows += 600
		}
		bc := c01BigCase(rows)
		if msg := c01Run(bc, st); msg != "" {
			b, _ := json.Marshal(bc)
			st.Fail("fixed large-table history: "+msg, b)
			vlib.Logf("FAIL C01 (large table): %s", msg)
			return
		}
	}
	vlib.DriveWith(t, vlib.Prop[c01Case]{ID: "C01", Gen: c01Gen, Run: c01Run}, Cfg, st)
}
