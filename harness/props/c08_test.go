package props

// C08 - stored values read back exactly; invalid values are refused.

import (
	"encoding/json"
	"fmt"
	"math"
	"strings"
	"testing"

	"pgregory.net/rapid"

	"verif/harness/gen"
	"verif/harness/mk"
	"verif/harness/model"
	"verif/vlib"
)

type c08Op struct {
	Stmt    model.Stmt    `json:"stmt"`
	Expect  model.ErrKind `json:"expect"` // "" = must be accepted
	Comment string        `json:"comment,omitempty"`
}

type c08Case struct {
	Bulk   int         `json:"bulk"` // rows inserted (and flushed) before phase 1: a table over several leaves
	Cols   []model.Col `json:"cols"`
	Phase1 []c08Op     `json:"phase1"` // before flush / eviction / clean restart
	Phase2 []c08Op     `json:"phase2"` // after the restart, ended by a crash - or by
	Reopen bool        `json:"reopen"` // the session switching to another database and back
	// Age > 0: the database starts with the row-id and LSN counters of a database long in use (props.Ages)
	Age int `json:"age,omitempty"`
	// RefusedCreate: the first statement of every new session is a CREATE TABLE of the existing table with
	// ANOTHER column list (an edited set-up script run again): it is refused, and the values must still be
	// read and written with the table's real columns
	RefusedCreate bool `json:"refused_create,omitempty"`
}

const c08Table = "vals"

func c08Boundary(rt *rapid.T, ct model.ColType, direct bool) model.Val {
	switch ct {
	case model.TInt:
		if direct {
			return model.Int(rapid.SampledFrom([]int64{math.MaxInt32, math.MinInt32, -1, 0, 1, math.MaxInt32 - 1, math.MinInt32 + 1}).Draw(rt, "bint"))
		}
		return model.Int(rapid.SampledFrom([]int64{math.MaxInt32, 0, 1, math.MaxInt32 - 1}).Draw(rt, "bint"))
	case model.TBigInt:
		if direct {
			return model.Int(rapid.SampledFrom([]int64{math.MaxInt64, math.MinInt64, -1, 0, math.MaxInt32 + 1, math.MinInt32 - 1, 1 << 53, -(1 << 53) - 1}).Draw(rt, "bbig"))
		}
		return model.Int(rapid.SampledFrom([]int64{math.MaxInt64, 0, math.MaxInt32 + 1, 1<<53 + 1}).Draw(rt, "bbig"))
	case model.TBool:
		return model.Bool(rapid.Bool().Draw(rt, "bbool"))
	}
	if direct {
		return model.Bytes(rapid.SampledFrom([][]byte{{}, {0}, {0xff, 0xfe}, {0, 0, 0, 0}, []byte("\n\r\t'\\\""), {0xc3}, []byte("日本")}).Draw(rt, "bstr"))
	}
	return model.Str(rapid.SampledFrom([]string{"", " ", "a", "\"", "日本", ";", "--", "/*"}).Draw(rt, "bstr"))
}

// c08Row draws a row for the schema; size selects an exact encoded size when
// the schema has a VARCHAR column (0 = whatever comes out).
func c08Row(rt *rapid.T, cols []model.Col, rid int64, direct bool, exact int) ([]model.Val, bool) {
	row := make([]model.Val, len(cols))
	row[0] = model.Int(rid)
	budget := gen.StrBudget(cols)
	lastVar := -1
	for i := 1; i < len(cols); i++ {
		c := cols[i]
		switch {
		case direct && rapid.IntRange(0, 9).Draw(rt, "null") == 0:
			row[i] = model.Null()
		case rapid.IntRange(0, 2).Draw(rt, "boundary") == 0:
			row[i] = c08Boundary(rt, c.Type, direct)
		default:
			row[i] = gen.Value(rt, "v", c.Type, direct, false, budget)
		}
		if c.Type == model.TVarchar {
			lastVar = i
		}
	}
	if exact > 0 {
		if lastVar < 0 {
			return row, false
		}
		row[lastVar] = model.Str("")
		vals := make([]interface{}, len(row))
		for i, v := range row {
			vals[i] = v.Go()
		}
		base := model.EncodedSize(cols, vals)
		need := exact - base
		if need < 0 {
			return row, false
		}
		b := make([]byte, need)
		for i := range b {
			b[i] = byte('a' + i%26)
		}
		if direct && need > 0 && rapid.Bool().Draw(rt, "binfill") {
			b[need/2] = 0
			row[lastVar] = model.Bytes(b)
		} else {
			row[lastVar] = model.Str(string(b))
		}
	}
	return row, true
}

func c08WrongKind(rt *rapid.T, ct model.ColType) model.Val {
	if rapid.IntRange(0, 3).Draw(rt, "gokind") == 0 {
		// Go kinds mkdb stores in no column: an unsigned value beyond the signed range (and a small
		// one), a float - refused, never wrapped or truncated into the column
		return rapid.SampledFrom([]model.Val{model.Uint(1<<63 + 7), model.Uint(18446744073709551611), model.Uint(5), model.Float(3)}).Draw(rt, "wronggo")
	}
	switch ct {
	case model.TInt, model.TBigInt:
		return rapid.SampledFrom([]model.Val{model.Str("12"), model.Bool(true), model.Str("")}).Draw(rt, "wrong")
	case model.TBool:
		return rapid.SampledFrom([]model.Val{model.Int(1), model.Str("true"), model.Int(0)}).Draw(rt, "wrong")
	}
	return rapid.SampledFrom([]model.Val{model.Int(7), model.Bool(false)}).Draw(rt, "wrong")
}

func c08Ops(rt *rapid.T, cols []model.Col, db *model.DB, nextRid *int64, n int) []c08Op {
	var ops []c08Op
	t := db.Tables[c08Table]
	render := func(s *model.Stmt, direct bool) {
		if !direct && gen.TextRenderable(*s) {
			s.SQL = gen.RenderStmt(gen.NewStyle(rt), *s)
		}
	}
	for len(ops) < n {
		direct := rapid.IntRange(0, 2).Draw(rt, "direct") == 0
		kind := rapid.SampledFrom([]string{"insert", "insert", "insert", "insert400", "insert401", "update", "update400", "update401", "wrongkind", "intrange", "updwrong", "delete", "updatepair", "updateall"}).Draw(rt, "opkind")
		op := c08Op{Comment: kind}
		switch kind {
		case "insert", "insert400", "insert401":
			exact := map[string]int{"insert": 0, "insert400": model.MaxRowBytes, "insert401": model.MaxRowBytes + 1}[kind]
			row, ok := c08Row(rt, cols, *nextRid, direct, exact)
			if !ok {
				continue
			}
			*nextRid++
			op.Stmt = model.Stmt{Kind: "insert", Table: c08Table, Rows: [][]model.Val{row}}
			if rapid.IntRange(0, 2).Draw(rt, "collist") == 0 {
				// the complete column list, in another order than the table's: values go by name
				perm := rapid.Permutation(intsUpTo(len(cols))).Draw(rt, "colperm")
				prow := make([]model.Val, len(cols))
				for i, ci := range perm {
					op.Stmt.InsCols = append(op.Stmt.InsCols, cols[ci].Name)
					prow[i] = row[ci]
				}
				op.Stmt.Rows = [][]model.Val{prow}
			}
		case "updateall":
			// one statement that rewrites a column in every row (rows of different lengths)
			if len(t.Rows) < 2 || len(cols) < 2 {
				continue
			}
			ci := rapid.IntRange(1, len(cols)-1).Draw(rt, "allcol")
			row, ok := c08Row(rt, cols, 0, direct, 0)
			if !ok {
				continue
			}
			op.Stmt = model.Stmt{Kind: "update", Table: c08Table, Set: []model.Assign{{Col: cols[ci].Name, Val: row[ci]}}}
			// (only when every row takes it: a multi-row statement failing at a later row is C14's
			// subject and its listed finding)
			if k, err := db.Clone().Apply(op.Stmt); err != nil || k != model.OK {
				continue
			}
		case "updatepair":
			// the same UPDATE text twice, the second time with different white space INSIDE the string
			// literal only (a user correcting a doubled blank): both values must be stored as written
			var scols []int
			for i := 1; i < len(cols); i++ {
				if cols[i].Type == model.TVarchar {
					scols = append(scols, i)
				}
			}
			if len(t.Rows) == 0 || len(scols) == 0 {
				continue
			}
			target := t.Rows[rapid.IntRange(0, len(t.Rows)-1).Draw(rt, "target")]
			ci := scols[rapid.IntRange(0, len(scols)-1).Draw(rt, "wscol")]
			pairs := [][2]string{{"Ada  Lovelace", "Ada Lovelace"}, {"Ada Lovelace", "Ada  Lovelace"}, {"a b", "a\tb"}, {"x ", "x"}, {"x", "x  "}, {" lead", "lead"}, {"two  blanks", "two   blanks"}}
			pr := pairs[rapid.IntRange(0, len(pairs)-1).Draw(rt, "wspair")]
			lit := model.Int(target.Vals[0].(int64))
			mkUpd := func(v string) model.Stmt {
				return model.Stmt{Kind: "update", Table: c08Table, Set: []model.Assign{{Col: cols[ci].Name, Val: model.Str(v)}},
					Where: &model.Cond{Or: [][]model.Cmp{{{L: model.Operand{Col: cols[0].Name}, Op: "=", R: model.Operand{Lit: &lit}}}}}}
			}
			first := mkUpd(pr[0])
			first.SQL = gen.RenderStmt(gen.NewStyle(rt), first)
			second := mkUpd(pr[1])
			second.SQL = strings.Replace(first.SQL, "'"+pr[0]+"'", "'"+pr[1]+"'", 1)
			if second.SQL == first.SQL {
				continue
			}
			for _, st := range []model.Stmt{first, second} {
				k, err := db.Clone().Apply(st)
				if err != nil || k != model.OK {
					continue
				}
				db.Apply(st)
				ops = append(ops, c08Op{Stmt: st, Expect: model.OK, Comment: "updatepair"})
			}
			continue
		case "delete":
			// a deleted row's neighbours must keep reading back exactly
			if len(t.Rows) == 0 {
				continue
			}
			lit := model.Int(t.Rows[rapid.IntRange(0, len(t.Rows)-1).Draw(rt, "deltarget")].Vals[0].(int64))
			op.Stmt = model.Stmt{Kind: "delete", Table: c08Table, Where: &model.Cond{Or: [][]model.Cmp{{{L: model.Operand{Col: cols[0].Name}, Op: "=", R: model.Operand{Lit: &lit}}}}}}
		case "update", "update400", "update401":
			if len(t.Rows) == 0 {
				continue
			}
			target := t.Rows[rapid.IntRange(0, len(t.Rows)-1).Draw(rt, "target")]
			rid := target.Vals[0].(int64)
			exact := map[string]int{"update": 0, "update400": model.MaxRowBytes, "update401": model.MaxRowBytes + 1}[kind]
			row, ok := c08Row(rt, cols, rid, direct, exact)
			if !ok {
				continue
			}
			s := model.Stmt{Kind: "update", Table: c08Table}
			for i := 1; i < len(cols); i++ {
				// set all columns (so that the exact size holds), or a subset for plain updates
				if exact > 0 || rapid.Bool().Draw(rt, "setcol") {
					s.Set = append(s.Set, model.Assign{Col: cols[i].Name, Val: row[i]})
				}
			}
			if len(s.Set) == 0 {
				continue
			}
			lit := model.Int(rid)
			s.Where = &model.Cond{Or: [][]model.Cmp{{{L: model.Operand{Col: cols[0].Name}, Op: "=", R: model.Operand{Lit: &lit}}}}}
			op.Stmt = s
		case "wrongkind", "intrange":
			row, _ := c08Row(rt, cols, *nextRid, direct, 0)
			// the offending value goes into a column that is not the first
			var cands []int
			for i := 1; i < len(cols); i++ {
				if kind == "wrongkind" || cols[i].Type == model.TInt {
					cands = append(cands, i)
				}
			}
			if len(cands) == 0 {
				continue
			}
			ci := cands[rapid.IntRange(0, len(cands)-1).Draw(rt, "badcol")]
			if kind == "wrongkind" {
				row[ci] = c08WrongKind(rt, cols[ci].Type)
			} else if direct {
				row[ci] = model.Int(rapid.SampledFrom([]int64{math.MaxInt32 + 1, math.MinInt32 - 1, math.MaxInt64, math.MinInt64}).Draw(rt, "oor"))
			} else {
				row[ci] = model.Int(rapid.SampledFrom([]int64{math.MaxInt32 + 1, math.MaxInt64, 4294967296}).Draw(rt, "oor"))
			}
			*nextRid++
			op.Stmt = model.Stmt{Kind: "insert", Table: c08Table, Rows: [][]model.Val{row}}
		case "updwrong":
			if len(t.Rows) == 0 || len(cols) < 2 {
				continue
			}
			target := t.Rows[rapid.IntRange(0, len(t.Rows)-1).Draw(rt, "target")]
			ci := rapid.IntRange(1, len(cols)-1).Draw(rt, "badcol")
			var v model.Val
			if cols[ci].Type == model.TInt && rapid.Bool().Draw(rt, "oor") {
				v = model.Int(math.MaxInt32 + 1)
			} else {
				v = c08WrongKind(rt, cols[ci].Type)
			}
			lit := model.Int(target.Vals[0].(int64))
			op.Stmt = model.Stmt{Kind: "update", Table: c08Table, Set: []model.Assign{{Col: cols[ci].Name, Val: v}},
				Where: &model.Cond{Or: [][]model.Cmp{{{L: model.Operand{Col: cols[0].Name}, Op: "=", R: model.Operand{Lit: &lit}}}}}}
		}
		render(&op.Stmt, direct)
		k, err := db.Clone().Apply(op.Stmt)
		if err != nil {
			panic(err)
		}
		op.Expect = k
		if k == model.OK {
			db.Apply(op.Stmt)
		}
		ops = append(ops, op)
	}
	return ops
}

func intsUpTo(n int) []int {
	r := make([]int, n)
	for i := range r {
		r[i] = i
	}
	return r
}

// c08BulkRow is a plain valid row (row number, small values) used to pre-fill the table.
func c08BulkRow(cols []model.Col, rid int64) model.Stmt {
	row := make([]model.Val, len(cols))
	row[0] = model.Int(rid)
	for i := 1; i < len(cols); i++ {
		switch cols[i].Type {
		case model.TInt, model.TBigInt:
			row[i] = model.Int(rid % 7)
		case model.TBool:
			row[i] = model.Bool(rid%2 == 0)
		default:
			row[i] = model.Str(fmt.Sprintf("bulk%d", rid))
		}
	}
	return model.Stmt{Kind: "insert", Table: c08Table, Rows: [][]model.Val{row}}
}

func c08Gen(rt *rapid.T) c08Case {
	c := c08Case{Age: DrawAge(rt), RefusedCreate: rapid.Bool().Draw(rt, "refusedcreate")}
	ncols := rapid.IntRange(1, 8).Draw(rt, "ncols")
	c.Cols = []model.Col{{Name: "rid", Type: model.TBigInt}}
	for i := 1; i < ncols; i++ {
		ct := model.ColType(rapid.IntRange(0, 3).Draw(rt, "ctype"))
		col := model.Col{Name: fmt.Sprintf("c%d", i), Type: ct}
		if ct == model.TVarchar {
			col.Len = 400
		}
		c.Cols = append(c.Cols, col)
	}
	db := model.NewDB()
	db.Apply(model.Stmt{Kind: "create", Table: c08Table, Cols: c.Cols})
	rid := int64(1)
	c.Bulk = rapid.SampledFrom([]int{0, 0, 3, 9, 20, 40}).Draw(rt, "bulk")
	for i := 0; i < c.Bulk; i++ {
		db.Apply(c08BulkRow(c.Cols, rid))
		rid++
	}
	c.Phase1 = c08Ops(rt, c.Cols, db, &rid, rapid.IntRange(2, 14).Draw(rt, "n1"))
	c.Phase2 = c08Ops(rt, c.Cols, db, &rid, rapid.IntRange(1, 8).Draw(rt, "n2"))
	c.Reopen = rapid.IntRange(0, 2).Draw(rt, "reopen") == 0
	return c
}

// c08OtherCreate is a CREATE TABLE of the case's table with a different column list: the columns in
// reverse order, each with another type, plus one more.
func c08OtherCreate(cols []model.Col) model.Stmt {
	s := model.Stmt{Kind: "create", Table: c08Table}
	for i := len(cols) - 1; i >= 0; i-- {
		c := cols[i]
		switch c.Type {
		case model.TVarchar:
			c.Type, c.Len = model.TInt, 0
		default:
			c.Type, c.Len = model.TVarchar, 12
		}
		s.Cols = append(s.Cols, c)
	}
	s.Cols = append(s.Cols, model.Col{Name: "one_more", Type: model.TBool})
	s.SQL = gen.RenderStmt(gen.Plain(), s)
	return s
}

func c08Run(c c08Case, st *vlib.Stats) string {
	b, _ := json.Marshal(c)
	dir := CaseDir("c08")
	eng, err := mk.Start(dir)
	if err == nil {
		if err = CreateDatabases(eng); err == nil {
			err = eng.Exec("USE " + DBName)
		}
	}
	if err != nil {
		return "setup failed: " + err.Error()
	}
	if err := AgeDatabase(eng, c.Age); err != nil {
		return "advancing the counters failed: " + err.Error()
	}
	defer func() {
		if eng != nil {
			eng.Crash(true)
		}
	}()
	m := model.NewDB()
	create := model.Stmt{Kind: "create", Table: c08Table, Cols: c.Cols}
	create.SQL = gen.RenderStmt(gen.Plain(), create)
	// a second table to scan, so that the small cache turns over
	other := model.Stmt{Kind: "create", Table: "other", Cols: []model.Col{{Name: "x", Type: model.TInt}}}
	other.SQL = gen.RenderStmt(gen.Plain(), other)
	fill := model.Stmt{Kind: "insert", Table: "other"}
	for i := 0; i < 30; i++ {
		fill.Rows = append(fill.Rows, []model.Val{model.Int(int64(i))})
	}
	fill.SQL = gen.RenderStmt(gen.Plain(), fill)
	for _, s := range []model.Stmt{create, other, fill} {
		m.Apply(s)
		if err := eng.ExecStmt(s); err != nil {
			return "setup statement refused: " + err.Error()
		}
	}
	for i := 0; i < c.Bulk; i++ {
		s := c08BulkRow(c.Cols, int64(i+1))
		m.Apply(s)
		if err := eng.ExecStmt(s); err != nil {
			return "bulk insert refused: " + err.Error()
		}
	}
	if c.Bulk > 0 {
		// everything on disk and clean before the operations under test
		eng.Flush()
	}
	kinds := map[string]bool{}
	boundary, refusedNotFirst, reloads := false, false, 0
	apply := func(ops []c08Op, phase string) string {
		for i, op := range ops {
			kinds[op.Comment] = true
			if op.Comment == "insert400" || op.Comment == "update400" {
				boundary = true
			}
			err := eng.ExecStmt(op.Stmt)
			if op.Expect == model.OK {
				if err != nil {
					return fmt.Sprintf("%s op %d (%s): an acceptable value was refused: %v\n  %s", phase, i, op.Comment, err, op.Stmt)
				}
				m.Apply(op.Stmt)
			} else {
				refusedNotFirst = true
				if err == nil {
					return fmt.Sprintf("%s op %d (%s): statement must be refused (%s) but was accepted\n  %s", phase, i, op.Comment, op.Expect, op.Stmt)
				}
				if mk.IsPanic(err) {
					return fmt.Sprintf("%s op %d (%s): statement must be refused with an error, it panicked: %v", phase, i, op.Comment, err)
				}
			}
			if msg := CompareTable(eng, m.Tables[c08Table], nil); msg != "" {
				return fmt.Sprintf("%s right after op %d (%s, expected %q): %s\n  %s", phase, i, op.Comment, op.Expect, msg, op.Stmt)
			}
		}
		return ""
	}
	if msg := apply(c.Phase1, "phase 1"); msg != "" {
		return msg
	}
	// written to disk, evicted, reloaded
	if err := eng.Flush(); err != nil {
		return "flush failed: " + err.Error()
	}
	eng.RS().VerifSetCacheSize(6)
	if _, err := eng.Query("SELECT * FROM other"); err != nil {
		return "scan of the other table failed: " + err.Error()
	}
	if msg := CompareAll(eng, m, nil); msg != "" {
		return "after flush, eviction and reload: " + msg
	}
	reloads++
	// clean restart
	if err := eng.Shutdown(); err != nil {
		return "shutdown failed: " + err.Error()
	}
	eng.Sess.RelationService = nil
	eng, err = mk.Start(dir)
	if err != nil {
		return "restart failed: " + err.Error()
	}
	if err := eng.Exec("USE " + DBName); err != nil {
		return "USE after restart failed: " + err.Error()
	}
	if c.RefusedCreate {
		if err := eng.ExecStmt(c08OtherCreate(c.Cols)); err == nil {
			st.Label("case-dropped(duplicate CREATE TABLE accepted)", 1)
			return ""
		} else if mk.IsPanic(err) {
			return "CREATE TABLE of the existing table: " + err.Error()
		}
	}
	if msg := CompareAll(eng, m, nil); msg != "" {
		return "after a clean restart: " + msg
	}
	reloads++
	if msg := apply(c.Phase2, "phase 2"); msg != "" {
		return msg
	}
	if c.Reopen {
		// USE another database and back: the store is closed (flushed) and the file
		// opened again without the start-up log replay
		if err := Reopen(eng); err != nil {
			return "switching databases failed: " + err.Error()
		}
		if msg := CompareAll(eng, m, nil); msg != "" {
			return "after USE of another database and back: " + msg
		}
	}
	// crash + recovery: the values only live in the log
	eng.Crash(true)
	eng, err = mk.Start(dir)
	if err != nil {
		return "recovery failed: " + err.Error()
	}
	if err := eng.Exec("USE " + DBName); err != nil {
		return "USE after recovery failed: " + err.Error()
	}
	if msg := CompareAll(eng, m, nil); msg != "" {
		return "after crash and recovery: " + msg
	}
	reloads++
	// and once more from the file alone: what recovery wrote back must read the same
	if err := eng.Shutdown(); err != nil {
		return "shutdown after recovery failed: " + err.Error()
	}
	eng.Sess.RelationService = nil
	eng, err = mk.Start(dir)
	if err != nil {
		return "restart after recovery failed: " + err.Error()
	}
	if err := eng.Exec("USE " + DBName); err != nil {
		return "USE after the second restart failed: " + err.Error()
	}
	if c.RefusedCreate {
		if err := eng.ExecStmt(c08OtherCreate(c.Cols)); err == nil {
			st.Label("case-dropped(duplicate CREATE TABLE accepted)", 1)
			return ""
		} else if mk.IsPanic(err) {
			return "CREATE TABLE of the existing table: " + err.Error()
		}
	}
	if msg := CompareAll(eng, m, nil); msg != "" {
		return "after crash, recovery and another clean restart: " + msg
	}
	var labels []string
	for k := range kinds {
		labels = append(labels, "op-"+k)
	}
	st.Record(b, boundary && reloads > 0 || refusedNotFirst, labels...)
	return ""
}

func TestC08(t *testing.T) {
	vlib.Drive(t, vlib.Prop[c08Case]{ID: "C08", Gen: c08Gen, Run: c08Run})
}
