package props

// C09 - the SQL front end never crashes or hangs on any input.

import (
	"bytes"
	"encoding/json"
	"fmt"
	"os"
	"path/filepath"
	"sort"
	"strings"
	"sync/atomic"
	"testing"
	"time"

	"github.com/mk6i/mkdb/sql"
	"pgregory.net/rapid"

	"verif/harness/gen"
	"verif/harness/mk"
	"verif/vlib"
)

type c09Case struct {
	Input  []byte `json:"input"` // base64 in JSON: any bytes
	Origin string `json:"origin"`
}

// ---- watchdog: a parse that does not return within the limit is a hang

var (
	c09Cur     atomic.Value // *c09Case currently being parsed
	c09Tick    int64        // progress counter
	c09Started int32
)

const c09HangLimit = 10 * time.Second

func c09Watchdog(st *vlib.Stats) {
	if !atomic.CompareAndSwapInt32(&c09Started, 0, 1) {
		return
	}
	go func() {
		last, since := int64(-1), time.Now()
		for {
			time.Sleep(500 * time.Millisecond)
			now := atomic.LoadInt64(&c09Tick)
			cur, _ := c09Cur.Load().(*c09Case)
			if now != last || cur == nil {
				last, since = now, time.Now()
				continue
			}
			if time.Since(since) > c09HangLimit {
				b, _ := json.Marshal(cur)
				st.Fail(fmt.Sprintf("tokenising/parsing did not terminate within %v (input of %d bytes, origin %s)", c09HangLimit, len(cur.Input), cur.Origin), b)
				st.Write(Cfg, "C09")
				vlib.Logf("FAIL C09: hang on %q", string(cur.Input))
				os.Exit(1)
			}
		}
	}()
}

// c09Parse runs exactly engine.parseSQL's pipeline on the input. It returns a
// violation message, whether the parser accepted the input, and the token
// type sequence.
func c09Parse(c *c09Case) (msg string, accepted bool, ntok int, sig string) {
	c09Cur.Store(c)
	atomic.AddInt64(&c09Tick, 1)
	defer func() {
		c09Cur.Store((*c09Case)(nil))
		atomic.AddInt64(&c09Tick, 1)
	}()
	var stmt interface{}
	var perr error
	err := mk.Guard(func() error {
		ts := sql.NewTokenScanner(bytes.NewReader(c.Input))
		tl := sql.TokenList{}
		var sb strings.Builder
		for ts.Next() {
			tok := ts.Cur()
			tl.Add(tok)
			ntok++
			if ntok <= 64 {
				fmt.Fprintf(&sb, "%d,", tok.Type)
			}
		}
		sig = sb.String()
		p := sql.Parser{TokenList: tl}
		stmt, perr = p.Parse()
		return nil
	})
	if err != nil {
		return fmt.Sprintf("front end panicked on %q: %v", string(c.Input), err), false, ntok, sig
	}
	if perr == nil && stmt == nil {
		return fmt.Sprintf("parser returned neither a statement nor an error for %q", string(c.Input)), false, ntok, sig
	}
	return "", perr == nil, ntok, sig
}

func c09Run(c c09Case, st *vlib.Stats) string {
	c09Watchdog(st)
	msg, accepted, ntok, sig := c09Parse(&c)
	nontrivial := (!accepted && ntok >= 3) || strings.HasPrefix(c.Origin, "prefix")
	label := "rejected"
	if accepted {
		label = "accepted"
	}
	st.RecordKey(sig+"|"+fmt.Sprint(accepted), nontrivial, func() []byte {
		b, _ := json.Marshal(map[string]interface{}{"input": string(c.Input), "origin": c.Origin, "accepted": accepted})
		return b
	}, label, "origin-"+strings.SplitN(c.Origin, ":", 2)[0])
	return msg
}

// ---- vocabulary for bounded-exhaustive token sequences

func c09Vocabulary(classesOnly bool) []string {
	var kws []string
	for k := range gen.Keywords {
		kws = append(kws, k)
	}
	sort.Strings(kws)
	other := []string{"a", "t0", `"q"`, "databases", "0", "7", "99999999999999999999", "0x10", "017", "1_0", "1.5", "1e5", ".5",
		"'s'", "''", "'", `"`, "`r`", "`", "(", ")", ",", ".", ";", "*", "=", "!=", "<", "<=", ">", ">=", "!", "-", "+", "/", "%", "@", "#", "$", "&", "|", "~", "?", ":", "[", "]", "{", "}", `\`, "/*", "//", "--", "\x00", "\xff"}
	if classesOnly {
		// class representatives: statement keywords and clause keywords kept, the rest thinned
		keep := map[string]bool{}
		for _, k := range strings.Fields("SELECT INSERT UPDATE DELETE CREATE USE SHOW FROM WHERE GROUP ORDER BY LIMIT OFFSET JOIN LEFT ON AND OR AS COUNT AVG INTO VALUES SET TABLE DATABASE INT VARCHAR TRUE DESC NULL") {
			keep[k] = true
		}
		var out []string
		for _, k := range kws {
			if keep[k] {
				out = append(out, k)
			}
		}
		return append(out, "a", `"q"`, "7", "99999999999999999999", "0x10", "1.5", "'s'", "'", `"`, "(", ")", ",", ".", ";", "*", "=", "<=", "!", "-", "/*")
	}
	return append(kws, other...)
}

// c09Exhaustive parses every token sequence of the given length whose first
// token index falls to this shard.
func c09Exhaustive(st *vlib.Stats, vocab []string, length int) string {
	idx := make([]int, length)
	n := len(vocab)
	var sb strings.Builder
	count := 0
	for first := Cfg.Shard; first < n; first += Cfg.Shards {
		idx[0] = first
		for i := 1; i < length; i++ {
			idx[i] = 0
		}
		for {
			sb.Reset()
			for i, k := range idx {
				if i > 0 {
					sb.WriteByte(' ')
				}
				sb.WriteString(vocab[k])
			}
			c := c09Case{Input: []byte(sb.String()), Origin: fmt.Sprintf("exhaustive:len%d", length)}
			if msg := c09Run(c, st); msg != "" {
				b, _ := json.Marshal(c)
				st.Fail(msg, b)
				return msg
			}
			count++
			// next combination over positions 1..length-1
			i := length - 1
			for i >= 1 {
				idx[i]++
				if idx[i] < n {
					break
				}
				idx[i] = 0
				i--
			}
			if i < 1 {
				break
			}
		}
	}
	st.AddExtra(fmt.Sprintf("exhaustive_sequences_len%d", length), count)
	return ""
}

var c09Hostile = []string{
	"'", `"`, "`", "'abc", `"abc`, "`abc", "SELECT '", `SELECT "`, "SELECT * FROM t WHERE a = '", "/*", "/* never closed", "SELECT /*", "//", "// x", "\x00", "\xef\xbb\xbfSELECT 1",
	"\xff\xfe", "SELECT \xc3", "SELECT * FROM t LIMIT 99999999999999999999", "SELECT * FROM t OFFSET 99999999999999999999999999", "CREATE TABLE t (a VARCHAR(0x10))",
	"CREATE TABLE t (a VARCHAR(99999999999999999999))", "SELECT 1 AND 2", "SELECT 1 OR 2", "SELECT a=1 AND b=2 OR c=3", "SELECT * FROM t WHERE a AND b", "SELECT * FROM t WHERE 1 AND",
	"SELECT * FROM t LIMIT 1 LIMIT 2", "SELECT * FROM t OFFSET 1 OFFSET 2 LIMIT 3 LIMIT 4", "SELECT * FROM t LIMIT", "SELECT * FROM t LIMIT -1", "SELECT count(", "SELECT avg()", "SELECT count(*", "SELECT avg(1)",
	"INSERT INTO t VALUES", "INSERT INTO t VALUES (", "INSERT INTO t VALUES (1,", "INSERT INTO t () VALUES ()", "UPDATE t SET", "UPDATE t SET a", "UPDATE t SET a =", "DELETE", "DELETE FROM", "CREATE", "CREATE TABLE", "CREATE TABLE (",
	"CREATE TABLE t (a", "CREATE TABLE t (a VARCHAR", "CREATE TABLE t (a VARCHAR(", "CREATE TABLE t (a VARCHAR(1", "SHOW", "USE", "SELECT", "SELECT ,", "SELECT * FROM", "SELECT * FROM t JOIN", "SELECT * FROM t JOIN u ON",
	"SELECT * FROM t LEFT", "SELECT * FROM t GROUP", "SELECT * FROM t GROUP BY", "SELECT a, count(*) FROM t GROUP BY a,", "SELECT * FROM t ORDER", "SELECT * FROM t ORDER BY", "SELECT * FROM t ORDER BY a,", "SELECT t. FROM t", "SELECT .a FROM t",
	"SELECT 1e999999", "SELECT 0b2", "SELECT 1__0", "SELECT 0x", "SELECT '\\", "SELECT '\\x", "SELECT '\\u12", "SELECT '\\777'", "SELECT \"\\", "1", "", " ", "\n", ";", ";;", "SELECT 1;;SELECT 2",
}

func c09Gen(rt *rapid.T) c09Case {
	mode := rapid.SampledFrom([]string{"prefix-bytes", "prefix-tokens", "mutate", "mutate", "soup", "bytes", "hostile", "long"}).Draw(rt, "mode")
	switch mode {
	case "prefix-bytes":
		s := gen.RenderAny(gen.NewStyle(rt), gen.FreeStmt(rt))
		n := rapid.IntRange(0, len(s)).Draw(rt, "cut")
		return c09Case{Input: []byte(s[:n]), Origin: "prefix-bytes"}
	case "prefix-tokens":
		s := gen.RenderAny(gen.Plain(), gen.FreeStmt(rt))
		f := strings.Fields(s)
		n := rapid.IntRange(0, len(f)).Draw(rt, "cut")
		return c09Case{Input: []byte(strings.Join(f[:n], " ")), Origin: "prefix-tokens"}
	case "mutate":
		vocab := c09Vocabulary(false)
		f := strings.Fields(gen.RenderAny(gen.Plain(), gen.FreeStmt(rt)))
		for k := rapid.IntRange(1, 3).Draw(rt, "nmut"); k > 0 && len(f) > 0; k-- {
			i := rapid.IntRange(0, len(f)-1).Draw(rt, "at")
			switch rapid.IntRange(0, 4).Draw(rt, "mut") {
			case 0:
				f = append(f[:i], f[i+1:]...)
			case 1:
				f = append(f[:i+1], f[i:]...)
			case 2:
				j := rapid.IntRange(0, len(f)-1).Draw(rt, "swap")
				f[i], f[j] = f[j], f[i]
			case 3:
				f[i] = rapid.SampledFrom(vocab).Draw(rt, "tok")
			case 4:
				g := strings.Fields(gen.RenderAny(gen.Plain(), gen.FreeStmt(rt)))
				if len(g) > 0 {
					j := rapid.IntRange(0, len(g)-1).Draw(rt, "splice")
					f = append(append(append([]string{}, f[:i]...), g[j:]...), f[i:]...)
				}
			}
		}
		return c09Case{Input: []byte(strings.Join(f, " ")), Origin: "mutate"}
	case "soup":
		vocab := c09Vocabulary(false)
		n := rapid.IntRange(1, 12).Draw(rt, "ntok")
		var f []string
		for i := 0; i < n; i++ {
			f = append(f, rapid.SampledFrom(vocab).Draw(rt, "tok"))
		}
		sep := rapid.SampledFrom([]string{" ", "", "\n", "\t "}).Draw(rt, "sep")
		return c09Case{Input: []byte(strings.Join(f, sep)), Origin: "soup"}
	case "bytes":
		return c09Case{Input: rapid.SliceOfN(rapid.Byte(), 0, 200).Draw(rt, "bytes"), Origin: "bytes"}
	case "hostile":
		h := rapid.SampledFrom(c09Hostile).Draw(rt, "hostile")
		if rapid.Bool().Draw(rt, "wrap") {
			h = gen.RenderAny(gen.Plain(), gen.FreeStmt(rt)) + " " + h
		}
		return c09Case{Input: []byte(h), Origin: "hostile"}
	}
	// long inputs: deep chains and big identifiers (bounded by 64 KiB)
	unit := rapid.SampledFrom([]string{" OR a=1", " AND a=1", ", a", " JOIN t ON a=b", ",(1)", "x", "9", "'", " LIMIT 1", "((((", " a.b"}).Draw(rt, "unit")
	n := rapid.IntRange(100, 5000).Draw(rt, "reps")
	if n*len(unit) > 65000 {
		n = 65000 / len(unit)
	}
	head := rapid.SampledFrom([]string{"SELECT * FROM t WHERE a=1", "SELECT a", "SELECT * FROM t", "INSERT INTO t VALUES (1)", "SELECT * FROM t ORDER BY a", ""}).Draw(rt, "head")
	return c09Case{Input: []byte(head + strings.Repeat(unit, n)), Origin: "long"}
}

// c09OddRunes: characters whose upper- or lower-case form has a different
// encoded length, is a different number of characters, or that are letters only
// to some classifiers - next to four ordinary ones.
var c09OddRunes = []rune("aZ1_ɐɑɒɜɡɥɪɫɱɽʇʞʝıſßŉǰΐﬁİẞȺȾ\u212a\u212bᾳǅᏸ\u2126µς\u0345ǆΰ\u1e9a\u2c65\ua7ae")

// c09RuneSweep is bounded-exhaustive: every sequence of 1-3 of those characters
// as a bare word, as a string literal and as a delimited identifier, alone and
// inside a statement.
func c09RuneSweep(st *vlib.Stats) string {
	R := c09OddRunes
	count := 0
	try := func(tok string) string {
		for _, in := range []string{tok, "'" + tok + "'", "SELECT " + tok + " FROM t", "SELECT * FROM t WHERE a = '" + tok + "'", "SELECT \"" + tok + "\" FROM " + tok} {
			c := c09Case{Input: []byte(in), Origin: "exhaustive:runes"}
			if msg := c09Run(c, st); msg != "" {
				b, _ := json.Marshal(c)
				st.Fail(msg, b)
				return msg
			}
			count++
		}
		return ""
	}
	for i := Cfg.Shard; i < len(R); i += Cfg.Shards {
		if msg := try(string(R[i])); msg != "" {
			return msg
		}
		for _, b := range R {
			if msg := try(string([]rune{R[i], b})); msg != "" {
				return msg
			}
			for _, c := range R {
				if msg := try(string([]rune{R[i], b, c})); msg != "" {
					return msg
				}
			}
		}
	}
	// tokens made of one multi-byte character repeated: many bytes, few characters
	// (and the other way round) - in places where the token is refused
	if Cfg.Shard == 0 {
		for _, r := range []string{"日", "😀", "é", "ɐ", "a", "\u200d"} {
			for n := 1; n <= 48; n++ {
				tok := strings.Repeat(r, n)
				for _, in := range []string{tok, "SELECT * FROM '" + tok + "'", "INSERT INTO t VALUES (1 '" + tok + "')", "SELECT " + tok + " " + tok + " " + tok, "SELECT a FROM t WHERE " + tok + " '" + tok + "'", "CREATE TABLE " + tok + " (" + tok + " " + tok + ")", "USE '" + tok + "'"} {
					c := c09Case{Input: []byte(in), Origin: "exhaustive:runes"}
					if msg := c09Run(c, st); msg != "" {
						b, _ := json.Marshal(c)
						st.Fail(msg, b)
						return msg
					}
					count++
				}
			}
		}
	}
	st.AddExtra("exhaustive_rune_sequences", count)
	return ""
}

func TestC09(t *testing.T) {
	st := vlib.NewStats("C09")
	defer st.Write(Cfg, "C09")
	c09Watchdog(st)
	if Cfg.Replay == "" {
		for _, h := range c09Hostile {
			c := c09Case{Input: []byte(h), Origin: "hostile:const"}
			if msg := c09Run(c, st); msg != "" {
				b, _ := json.Marshal(c)
				st.Fail(msg, b)
				vlib.Logf("FAIL C09: %s", msg)
				return
			}
		}
		// saved corpus (replay tier)
		if files, _ := filepath.Glob(filepath.Join(os.Getenv("VERIF_DIR"), "corpus", "C09", "*")); len(files) > 0 {
			for _, f := range files {
				data, err := os.ReadFile(f)
				if err != nil {
					continue
				}
				c := c09Case{Input: data, Origin: "corpus:" + filepath.Base(f)}
				if msg := c09Run(c, st); msg != "" {
					b, _ := json.Marshal(c)
					st.Fail(msg, b)
					vlib.Logf("FAIL C09: %s", msg)
					return
				}
			}
		}
		if msg := c09RuneSweep(st); msg != "" {
			vlib.Logf("FAIL C09 (rune sweep): %s", msg)
			return
		}
		length := 3
		if msg := c09Exhaustive(st, c09Vocabulary(false), length); msg != "" {
			vlib.Logf("FAIL C09 (exhaustive): %s", msg)
			return
		}
		if Cfg.Tier == "thorough" {
			if msg := c09Exhaustive(st, c09Vocabulary(true), 4); msg != "" {
				vlib.Logf("FAIL C09 (exhaustive): %s", msg)
				return
			}
		}
	}
	vlib.DriveWith(t, vlib.Prop[c09Case]{ID: "C09", Gen: c09Gen, Run: c09Run}, Cfg, st)
}

// FuzzC09 is the coverage-guided tier (thorough only): go test -fuzz.
func FuzzC09(f *testing.F) {
	for _, h := range c09Hostile {
		f.Add([]byte(h))
	}
	for _, s := range []string{"SELECT a, count(*) FROM t x JOIN u ON x.a = u.a WHERE a = 1 AND b = 'x' OR c != true GROUP BY a ORDER BY a DESC LIMIT 1 OFFSET 2",
		"INSERT INTO t (a, b) VALUES (1, 'x'), (2, 'y')", "UPDATE t SET a = 1, b = 'x' WHERE a >= 2", "DELETE FROM t WHERE a < 3", "CREATE TABLE t (a INT, b VARCHAR(10), c BOOLEAN, d BIGINT)", "CREATE DATABASE d", "USE d", "SHOW DATABASES"} {
		f.Add([]byte(s))
	}
	st := vlib.NewStats("C09")
	f.Fuzz(func(t *testing.T, data []byte) {
		if len(data) > 65536 {
			return
		}
		c := c09Case{Input: data, Origin: "fuzz"}
		done := make(chan string, 1)
		go func() {
			msg, _, _, _ := c09Parse(&c)
			done <- msg
		}()
		var msg string
		select {
		case msg = <-done:
		case <-time.After(c09HangLimit):
			msg = fmt.Sprintf("tokenising/parsing did not terminate within %v", c09HangLimit)
		}
		if msg != "" {
			if dir := os.Getenv("VERIF_FUZZ_FAILDIR"); dir != "" {
				b, _ := json.Marshal(vlib.Failure{Property: "C09", Message: msg, Case: mustJSON(c)})
				os.WriteFile(filepath.Join(dir, "fuzzfail-"+vlib.Fingerprint(data)+".json"), b, 0644)
			}
			t.Fatal(msg)
		}
	})
	_ = st
}

func mustJSON(x interface{}) json.RawMessage {
	b, err := json.Marshal(x)
	if err != nil {
		panic(err)
	}
	return b
}
