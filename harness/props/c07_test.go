package props

// C07 - COUNT, AVG and GROUP BY compute true aggregates.

import (
	"encoding/json"
	"fmt"
	"os"
	"path/filepath"
	"strings"
	"testing"

	"pgregory.net/rapid"

	"verif/harness/gen"
	"verif/harness/mk"
	"verif/harness/model"
	"verif/harness/ref"
	"verif/vlib"
)

const c07KnownID = "C07-avg-running-mean"

type c07Query struct {
	Q   gen.Select `json:"q"`
	SQL string     `json:"sql"`
}

type c07Case struct {
	Setup   []model.Stmt `json:"setup"`
	Perm    []int        `json:"perm"` // order in which t0's rows are inserted into the shadow database
	Queries []c07Query   `json:"queries"`
	// TwoDB: afterwards the same query texts go through Session.ExecQuery,
	// alternating between this database and a second one that holds tables of
	// the same names with only every other row of t0
	TwoDB bool `json:"two_db,omitempty"`
}

func c07Gen(rt *rapid.T) c07Case {
	c := c07Case{Setup: gen.AggTables(rt)}
	db := model.NewDB()
	nins := 0
	for _, s := range c.Setup {
		gen.MustApply(db, s)
		if s.Kind == "insert" && s.Table == "t0" {
			nins++
		}
	}
	idx := make([]int, nins)
	for i := range idx {
		idx[i] = i
	}
	if nins > 1 {
		c.Perm = rapid.Permutation(idx).Draw(rt, "perm")
	} else {
		c.Perm = idx
	}
	c.TwoDB = rapid.IntRange(0, 2).Draw(rt, "twodb") == 0
	n := rapid.IntRange(1, 8).Draw(rt, "nqueries")
	for i := 0; i < n; i++ {
		q := gen.AggQuery(rt, db)
		c.Queries = append(c.Queries, c07Query{Q: q, SQL: gen.RenderSelect(gen.NewStyle(rt), q)})
	}
	return c
}

// matchAggregates matches expected rows with returned rows as multisets.
// AVG cells are compared through the exact mean (either neighbour at an exact
// half). It reports a mismatch message, and separately whether the only
// deviation is the listed finding: an AVG cell that equals the running mean
// re-rounded after every row in scan order.
func matchAggregates(res *mk.Result, out *ref.Output) (msg string, legacyOnly bool) {
	if len(res.Header) != len(out.Header) {
		return fmt.Sprintf("%d columns returned, %d expected (%v vs %v)", len(res.Header), len(out.Header), res.Header, out.Header), false
	}
	for i := range out.Header {
		if res.Header[i] != out.Header[i] && !(i < len(out.HeaderFree) && out.HeaderFree[i]) {
			return fmt.Sprintf("column %d is named %q, expected %q", i, res.Header[i], out.Header[i]), false
		}
	}
	if len(res.Rows) != len(out.Rows) {
		return fmt.Sprintf("%d result rows, expected %d (one per distinct combination of grouping values)\n  returned: %v\n  expected: %v", len(res.Rows), len(out.Rows), trunc(multiset(res.Rows)), expectedStrings(out)), false
	}
	// With LIMIT/OFFSET and no ORDER BY any window over the aggregated rows is a
	// correct answer: the returned rows must be distinct members of the full
	// aggregated result (and, checked above, as many as the window keeps).
	pool := out.Rows
	windowed := out.Limit >= 0 || out.Offset > 0
	if windowed {
		pool = out.Full
	}
	used := make([]bool, len(pool))
	usedLegacy := false
	for _, got := range res.Rows {
		found := -1
		legacyHere := false
		for pass := 0; pass < 2 && found < 0; pass++ {
			for wi, want := range pool {
				if used[wi] {
					continue
				}
				ok, leg := true, false
				for ci := range want {
					if info, isAvg := want[ci].(ref.AvgInfo); isAvg {
						v, isInt := got[ci].(int64)
						switch {
						case isInt && info.Accepts(v):
						case isInt && pass == 1 && v == info.Legacy:
							leg = true
						default:
							ok = false
						}
					} else if !model.GoEqual(want[ci], got[ci]) {
						ok = false
					}
					if !ok {
						break
					}
				}
				if ok {
					found, legacyHere = wi, leg
					break
				}
			}
		}
		if found < 0 {
			what := "no expected group matches the returned row"
			if windowed {
				what = "the returned row is not (or not that often) among the aggregated rows the LIMIT/OFFSET window is taken from:"
			}
			return fmt.Sprintf("%s %s\n  returned: %v\n  expected: %v", what, model.RowString(got), trunc(multiset(res.Rows)), expectedStringsOf(pool)), false
		}
		used[found] = true
		usedLegacy = usedLegacy || legacyHere
	}
	// ORDER BY over grouping columns: the sequence of sort keys is determined even where rows tie
	for i := range res.Rows {
		for _, ki := range out.KeyIdx {
			if i < len(out.Rows) && !model.GoEqual(res.Rows[i][ki], out.Rows[i][ki]) {
				return fmt.Sprintf("row %d: sort key %v, expected %v - the aggregated rows are not in ORDER BY order\n  returned: %v\n  expected: %v", i, res.Rows[i][ki], out.Rows[i][ki], trunc(seqStrings(res.Rows)), expectedStrings(out)), false
			}
		}
	}
	if usedLegacy {
		return "AVG differs from the true rounded mean and equals the running mean re-rounded after every row", true
	}
	return "", false
}

func expectedRow(r []interface{}) string {
	s := "("
	for i, v := range r {
		if i > 0 {
			s += ", "
		}
		if info, ok := v.(ref.AvgInfo); ok {
			s += fmt.Sprintf("avg=%d/%d", info.Sum, info.Count)
		} else {
			s += model.GoString(v)
		}
	}
	return s + ")"
}

func expectedStrings(out *ref.Output) []string { return expectedStringsOf(out.Rows) }

func expectedStringsOf(rows [][]interface{}) []string {
	var s []string
	for _, r := range rows {
		s = append(s, expectedRow(r))
	}
	return trunc(s)
}

func c07Labels(q gen.Select, out *ref.Output) (bool, []string) {
	var labels []string
	nt := false
	if len(q.GroupBy) >= 2 && len(out.Rows) >= 2 {
		// two groups whose concatenated printed keys coincide
		seen := map[string]int{}
		var gidx []int
		for i, it := range q.Items {
			if it.Kind == "col" {
				gidx = append(gidx, i)
			}
		}
		for _, r := range out.Rows {
			k := ""
			for _, i := range gidx {
				k += fmt.Sprintf("%v", r[i])
			}
			seen[k]++
		}
		for _, n := range seen {
			if n >= 2 {
				nt = true
				labels = append(labels, "colliding-printed-keys")
				break
			}
		}
	}
	for _, r := range out.Rows {
		for _, v := range r {
			if info, ok := v.(ref.AvgInfo); ok && info.Count > 0 && !info.Accepts(info.Legacy) {
				labels = append(labels, "avg-order-sensitive")
				nt = true
			}
		}
	}
	if len(q.Items) > 0 && q.Items[0].Kind != "col" && len(q.GroupBy) > 0 {
		nt = true
		labels = append(labels, "grouping-column-not-first")
	}
	if len(q.Joins) > 0 {
		labels = append(labels, "on-join")
	}
	if q.Limit != nil || q.Offset != nil {
		labels = append(labels, "with-limit-or-offset")
		if len(out.Rows) < len(out.Full) {
			labels = append(labels, "window-cuts-aggregated-rows")
		}
	}
	if q.AmbigOK {
		labels = append(labels, "alias-shadows-grouping-column")
	}
	if len(q.GroupBy) == 0 {
		labels = append(labels, "no-group-by")
		if len(out.Rows) == 1 {
			zero := true
			for _, v := range out.Rows[0] {
				if info, ok := v.(ref.AvgInfo); ok && info.Count > 0 {
					zero = false
				}
				if n, ok := v.(int64); ok && n != 0 {
					zero = false
				}
			}
			if zero {
				labels = append(labels, "empty-input-zero-row")
			}
		}
	}
	for _, g := range q.GroupBy {
		if g.Qual != "" {
			labels = append(labels, "group-by-qualified")
		}
	}
	return nt, labels
}

func c07Run(c c07Case, st *vlib.Stats) string {
	// two databases: the table as given, and a shadow with t0's rows permuted
	run := func(name string, perm bool) (*mk.Engine, *model.DB, string) {
		eng, err := OpenFresh(name)
		if err != nil {
			return nil, nil, "setup failed: " + err.Error()
		}
		m := model.NewDB()
		var t0ins []model.Stmt
		var rest []model.Stmt
		for _, s := range c.Setup {
			if s.Kind == "insert" && s.Table == "t0" {
				t0ins = append(t0ins, s)
			} else {
				rest = append(rest, s)
			}
		}
		ordered := t0ins
		if perm {
			ordered = nil
			for _, i := range c.Perm {
				if i < len(t0ins) {
					ordered = append(ordered, t0ins[i])
				}
			}
		}
		// creates first (in original order), then t0 rows, then the other inserts
		var seq []model.Stmt
		for _, s := range rest {
			if s.Kind == "create" {
				seq = append(seq, s)
			}
		}
		seq = append(seq, ordered...)
		for _, s := range rest {
			if s.Kind != "create" {
				seq = append(seq, s)
			}
		}
		for _, s := range seq {
			if k, merr := m.Apply(s); merr != nil || k != model.OK {
				eng.Crash(true)
				return nil, nil, fmt.Sprintf("case invalid in the model: %v %v", k, merr)
			}
			if err := eng.ExecStmt(s); err != nil {
				eng.Crash(true)
				return nil, nil, fmt.Sprintf("setup statement refused: %v (%s)", err, s)
			}
		}
		return eng, m, ""
	}
	engA, mA, msg := run("c07a", false)
	if msg != "" {
		return msg
	}
	defer engA.Crash(true)
	engB, mB, msg := run("c07b", true)
	if msg != "" {
		return msg
	}
	defer engB.Crash(true)
	for qi, cq := range c.Queries {
		outA, rerr := ref.Eval(mA, cq.Q)
		if rerr != nil {
			return fmt.Sprintf("harness: generated query %d is not valid for the reference: %v (%s)", qi, rerr, cq.SQL)
		}
		outB, _ := ref.Eval(mB, cq.Q)
		nt, labels := c07Labels(cq.Q, outA)
		b, _ := json.Marshal(struct {
			S []model.Stmt `json:"s"`
			Q gen.Select   `json:"q"`
		}{c.Setup, cq.Q})
		st.RecordKey(string(b), nt, func() []byte {
			sb, _ := json.Marshal(map[string]interface{}{"t0_rows": len(mA.Tables["t0"].Rows), "query": cq.SQL})
			return sb
		}, labels...)
		for side, e := range []*mk.Engine{engA, engB} {
			out := outA
			if side == 1 {
				out = outB
			}
			// (chdir matters only for opening files; both engines are already open)
			res, err := e.Query(cq.SQL)
			if err != nil && cq.Q.AmbigOK && strings.Contains(err.Error(), "ambiguous") {
				// an alias shadows another grouping column's name: refusing is allowed, a wrong answer is not
				st.Label("refused-as-ambiguous(alias shadows a grouping column)", 1)
				continue
			}
			if err != nil {
				return fmt.Sprintf("query %d is valid but failed (%s row order): %v\n  %q", qi, []string{"original", "permuted"}[side], err, cq.SQL)
			}
			msg, legacy := matchAggregates(res, out)
			if legacy {
				wc := c07Case{Setup: c.Setup, Perm: c.Perm, Queries: []c07Query{cq}}
				wb, _ := json.Marshal(wc)
				st.HitKnown(c07KnownID, fmt.Sprintf("query %q: %s", cq.SQL, msg), wb)
				if p := os.Getenv("VERIF_DUMP_KNOWN"); p != "" && len(wb) < 2500 {
					if _, err := os.Stat(p); err != nil {
						os.WriteFile(p, wb, 0644)
					}
				}
				continue
			}
			if msg != "" {
				return fmt.Sprintf("query %d (%s row order): %s\n  %q", qi, []string{"original", "permuted"}[side], msg, cq.SQL)
			}
		}
	}
	if !c.TwoDB {
		return ""
	}
	// The console's route, over two databases in one session: what the session
	// prints for a query must be the table of the result evaluated directly in
	// the database that is selected at that moment.
	mO := model.NewDB()
	if err := engB.Exec("CREATE DATABASE d_other"); err != nil {
		return "CREATE DATABASE d_other failed: " + err.Error()
	}
	if err := engB.Exec("USE d_other"); err != nil {
		return "USE d_other failed: " + err.Error()
	}
	nth := 0
	for _, s := range c.Setup {
		if s.Kind == "insert" && s.Table == "t0" {
			nth++
			if nth%2 == 0 {
				continue
			}
		}
		mO.Apply(s)
		if err := engB.ExecStmt(s); err != nil {
			return fmt.Sprintf("second database: setup statement refused: %v (%s)", err, s)
		}
	}
	scratch := filepath.Join(WorkDir, "c07-stdout.txt")
	for round := 0; round < 2; round++ {
		for _, dbn := range []string{DBName, "d_other"} {
			if err := engB.Exec("USE " + dbn); err != nil {
				return fmt.Sprintf("USE %s failed: %v", dbn, err)
			}
			for qi, cq := range c.Queries {
				res, err := engB.Query(cq.SQL)
				if err != nil {
					continue // refusals were dealt with above
				}
				if dbn == "d_other" {
					out, rerr := ref.Eval(mO, cq.Q)
					if rerr != nil {
						return fmt.Sprintf("harness: query %d is not valid for the reference in the second database: %v", qi, rerr)
					}
					if msg, legacy := matchAggregates(res, out); msg != "" && !legacy {
						return fmt.Sprintf("query %d in the second database: %s\n  %q", qi, msg, cq.SQL)
					}
				}
				printed, err := engB.ExecCapture(cq.SQL, scratch)
				if err != nil {
					return fmt.Sprintf("query %d evaluates but Session.ExecQuery failed in database %s: %v\n  %q", qi, dbn, err, cq.SQL)
				}
				if want := mk.FormatTable(res); !strings.HasSuffix(printed, want) {
					tail := printed
					if len(tail) > len(want)+200 {
						tail = tail[len(tail)-len(want)-200:]
					}
					return fmt.Sprintf("query %d, database %s selected (round %d): Session.ExecQuery printed a different result than evaluating the statement in that database gives\n  %q\n  printed (tail): %q\n  expected table: %q", qi, dbn, round, cq.SQL, tail, want)
				}
			}
		}
	}
	st.Label("session-route-over-two-databases", 1)
	return ""
}

func TestC07(t *testing.T) {
	vlib.Drive(t, vlib.Prop[c07Case]{ID: "C07", Gen: c07Gen, Run: c07Run})
}

// seqStrings prints rows in the order given.
func seqStrings(rows [][]interface{}) []string {
	var out []string
	for _, r := range rows {
		out = append(out, model.RowString(r))
	}
	return out
}
