package props

// C02 - acknowledged statements survive a crash between statements.

import (
	"encoding/json"
	"fmt"
	"os"
	"path/filepath"
	"strings"
	"testing"

	"github.com/mk6i/mkdb/storage"
	"pgregory.net/rapid"

	"verif/harness/gen"
	"verif/harness/mk"
	"verif/harness/model"
	"verif/vlib"
)

type c02Segment struct {
	Stmts []model.Stmt `json:"stmts"`
	End   string       `json:"end"` // crash | shutdown | tornflush
	// tornflush: the process dies in the middle of a timer flush that started
	// after the last statement: only the pages selected by TornMask (bit i =
	// i-th dirty page in offset order) reached the file, the header did not.
	TornMask uint64 `json:"torn_mask,omitempty"`
}

type c02Case struct {
	Segments   []c02Segment `json:"segments"`
	ImageEvery int          `json:"image_every"`       // crash image after every n-th statement of segment 0 (1 = every)
	Preload    int          `json:"preload,omitempty"` // leading statements of segment 0 after which no image is taken (bulk load)
	// SmallRecover > 0: every image is first recovered, on a copy, by a start-up recovery whose own page cache
	// holds only that many pages (hook VerifInitCacheSize) - the recovery of a database much larger than the cache
	SmallRecover int `json:"small_recover,omitempty"`
	// Age > 0: the database starts with the row-id and LSN counters of a database long in use (props.Ages)
	Age int `json:"age,omitempty"`
}

// c02Deep builds the start of a "deep tree" case: one table loaded with enough
// rows for a three-level tree (more than 290 leaves), then activity at the
// right-hand edge of the tree - inserts, deletes and updates of the most
// recently inserted rows - which is where splits, tombstones and log replay meet
// in a tree whose root is no longer restamped by every leaf split.
func c02Deep(rt *rapid.T, db *model.DB) (stmts []model.Stmt, preload int) {
	cr := model.Stmt{Kind: "create", Table: "big", Cols: []model.Col{{Name: "a", Type: model.TInt}, {Name: "s", Type: model.TVarchar, Len: 16}}}
	gen.MustApply(db, cr)
	stmts = append(stmts, cr)
	rows := rapid.SampledFrom([]int{1100, 1170, 1200, 1300, 1500, 1745, 1760, 2340}).Draw(rt, "deep_rows")
	n := 0
	var recent []int64
	ins := func(k int) {
		s := model.Stmt{Kind: "insert", Table: "big"}
		for i := 0; i < k; i++ {
			s.Rows = append(s.Rows, []model.Val{model.Int(int64(n)), model.Str(fmt.Sprintf("v%d", n%7))})
			recent = append(recent, int64(n))
			n++
		}
		if len(recent) > 8 {
			recent = recent[len(recent)-8:]
		}
		gen.MustApply(db, s)
		stmts = append(stmts, s)
	}
	for n < rows {
		k := 100
		if rows-n < k {
			k = rows - n
		}
		ins(k)
	}
	preload = len(stmts)
	defer func() {
		for i := range stmts {
			stmts[i].SQL = gen.RenderStmt(gen.Plain(), stmts[i])
		}
	}()
	eq := func(v int64) *model.Cond {
		lit := model.Int(v)
		return &model.Cond{Or: [][]model.Cmp{{{L: model.Operand{Col: "a"}, Op: "=", R: model.Operand{Lit: &lit}}}}}
	}
	for k := rapid.IntRange(3, 12).Draw(rt, "deep_ops"); k > 0; k-- {
		switch rapid.IntRange(0, 5).Draw(rt, "deep_op") {
		case 0, 1:
			ins(rapid.IntRange(1, 4).Draw(rt, "deep_ins"))
		case 2, 3:
			v := recent[rapid.IntRange(0, len(recent)-1).Draw(rt, "deep_del")]
			s := model.Stmt{Kind: "delete", Table: "big", Where: eq(v)}
			gen.MustApply(db, s)
			stmts = append(stmts, s)
		case 4:
			v := recent[rapid.IntRange(0, len(recent)-1).Draw(rt, "deep_upd")]
			s := model.Stmt{Kind: "update", Table: "big", Set: []model.Assign{{Col: "s", Val: model.Str("upd")}}, Where: eq(v)}
			gen.MustApply(db, s)
			stmts = append(stmts, s)
		case 5:
			ins(rapid.SampledFrom([]int{5, 9, 17}).Draw(rt, "deep_ins_many"))
		}
	}
	return stmts, preload
}

func c02Gen(rt *rapid.T) c02Case {
	nseg := rapid.SampledFrom([]int{1, 2, 2, 3, 3, 4}).Draw(rt, "nseg")
	flushMode := rapid.SampledFrom([]string{"never", "always", "random", "random", "afterddl"}).Draw(rt, "flushmode")
	db := model.NewDB()
	burst := nseg >= 2 && rapid.IntRange(0, 2).Draw(rt, "ddlburst") == 0
	var c c02Case
	c.ImageEvery = 1
	c.Age = DrawAge(rt)
	if rapid.IntRange(0, 2).Draw(rt, "smallrecover") == 0 {
		c.SmallRecover = rapid.SampledFrom([]int{8, 12, 16, 24, 48, 96}).Draw(rt, "recovercache")
	}
	for si := 0; si < nseg; si++ {
		cfg := gen.HistCfg{
			MinStmts: 2, MaxStmts: 22, MaxTables: 3, MaxCols: 4, Direct: true, ReUse: true,
			RowCounts: []int{1, 1, 1, 2, 3, 4, 8, 9, 10, 17},
			Small:     rapid.IntRange(0, 2).Draw(rt, "small") > 0,
		}
		if rapid.IntRange(0, 5).Draw(rt, "manytables") == 0 {
			cfg.MaxTables = 9
		}
		segStart := map[string]bool{}
		for _, n := range db.TableNames() {
			segStart[n] = true
		}
		var stmts []model.Stmt
		if si == 0 && rapid.IntRange(0, 31).Draw(rt, "deep") == 13 {
			stmts, c.Preload = c02Deep(rt, db)
			cfg.MaxStmts = 6
		}
		if si > 0 && burst {
			// start the segment with a multi-row insert into a small table: a root
			// move right after the restart
			names := db.TableNames()
			t := db.Tables[names[rapid.IntRange(0, len(names)-1).Draw(rt, "burst_tbl")]]
			ins := gen.TextInsert(rt, t, rapid.SampledFrom([]int{8, 9, 10, 17}).Draw(rt, "burst_rows"), true)
			gen.MustApply(db, ins)
			stmts = append(stmts, ins)
		}
		stmts = append(stmts, gen.History(rt, cfg, db)...)
		if burst && si+1 < nseg {
			// end the segment with a burst of CREATE TABLEs: DDL consumes log
			// sequence numbers without logging
			for k := rapid.IntRange(2, 6).Draw(rt, "burst_creates"); k > 0; k-- {
				cr := gen.CreateStmt(rt, 4, db)
				gen.MustApply(db, cr)
				stmts = append(stmts, cr)
			}
		}
		if rapid.IntRange(0, 3).Draw(rt, "failing") == 0 {
			// statements that are refused in between: they returned no success, so they
			// must leave no trace - not in the tables, and not in what recovery does later
			known := map[string]bool{}
			var out []model.Stmt
			for _, s := range stmts {
				out = append(out, s)
				known[s.Table] = true
				if rapid.IntRange(0, 5).Draw(rt, "failhere") == 0 {
					var names []string
					for _, n := range db.TableNames() {
						if known[n] || segStart[n] {
							names = append(names, n)
						}
					}
					f := gen.FailingStmt(rt, db, db.Tables[names[rapid.IntRange(0, len(names)-1).Draw(rt, "failtbl")]])
					out = append(out, f)
				}
			}
			stmts = out
		}
		for i := range stmts {
			switch flushMode {
			case "always":
				stmts[i].FlushAfter = true
			case "random":
				stmts[i].FlushAfter = rapid.IntRange(0, 2).Draw(rt, "flush") == 0
			case "afterddl":
				stmts[i].FlushAfter = stmts[i].Kind == "create"
			}
		}
		end := rapid.SampledFrom([]string{"crash", "crash", "crash", "shutdown", "tornflush", "tornflush"}).Draw(rt, "end")
		seg := c02Segment{Stmts: stmts, End: end}
		if end == "tornflush" {
			seg.TornMask = rapid.Uint64().Draw(rt, "tornmask")
		}
		c.Segments = append(c.Segments, seg)
	}
	return c
}

// recoverAndCompare starts a process on dir (running recovery), compares every
// table with the model, then crashes it and recovers a second time: nothing
// may change. It returns the still running engine of the second start.
// smallRecover, when positive, makes recoverAndCompare first recover a copy of the directory with a
// recovery-time page cache of that many pages. Replay re-dirties only the pages whose changes had not been
// flushed; when those alone do not fit the cache, recovery may stop with the documented 'cache is full'
// error, which is counted and not judged.
var smallRecover int
var smallRecoverStats *vlib.Stats

func recoverSmall(dir string, m *model.DB, tr *IDTracker, what string) string {
	cp := filepath.Join(WorkDir, "c02-smallrecover")
	os.RemoveAll(cp)
	defer os.RemoveAll(cp)
	if err := mk.CopyDataDir(dir, cp); err != nil {
		return "image copy failed: " + err.Error()
	}
	// Replay never evicts what it re-dirtied, and recovery ends with one flush: the number of pages that
	// flush writes is the largest number of dirty pages the recovery ever held. Only when that stayed
	// below the capacity was the cache never full of dirty pages - the precondition under which a small
	// cache may not matter (mkdb does not survive an overflow of its cache inside an operation, which is
	// outside every listed property; C16 words the precondition).
	written := 0
	storage.VerifHook = func(point string, arg uint64) {
		if point == "page.write" {
			written++
		}
	}
	storage.VerifInitCacheSize = smallRecover
	eng, err := mk.Start(cp)
	storage.VerifInitCacheSize = 0
	storage.VerifHook = nil
	if eng != nil {
		defer eng.Crash(false)
	}
	if (err != nil && strings.Contains(err.Error(), "cache is full")) || written > smallRecover-2 {
		smallRecoverStats.Label("small-cache-recovery-not-judged(unflushed pages fill the cache)", 1)
		return ""
	}
	if err != nil {
		return fmt.Sprintf("%s: recovery with a page cache of %d pages failed: %v", what, smallRecover, err)
	}
	if err := eng.Exec("USE " + DBName); err != nil {
		return fmt.Sprintf("%s: USE after a recovery with a page cache of %d pages failed: %v", what, smallRecover, err)
	}
	if msg := CompareAll(eng, m, tr); msg != "" {
		return fmt.Sprintf("%s: after a recovery with a page cache of %d pages: %s", what, smallRecover, msg)
	}
	smallRecoverStats.Label("small-cache-recovery-compared", 1)
	return ""
}

func recoverAndCompare(dir string, m *model.DB, tr *IDTracker, what string) (*mk.Engine, string) {
	if smallRecover > 0 {
		if msg := recoverSmall(dir, m, tr, what); msg != "" {
			return nil, msg
		}
	}
	for round := 1; round <= 2; round++ {
		eng, err := mk.Start(dir)
		if err != nil {
			return nil, fmt.Sprintf("%s: recovery #%d failed: %v", what, round, err)
		}
		if err := eng.Exec("USE " + DBName); err != nil {
			return nil, fmt.Sprintf("%s: USE after recovery #%d failed: %v", what, round, err)
		}
		if msg := CompareAll(eng, m, tr); msg != "" {
			eng.Crash(false)
			return nil, fmt.Sprintf("%s: after recovery #%d: %s", what, round, msg)
		}
		if round == 2 {
			return eng, ""
		}
		eng.Crash(false)
	}
	return nil, ""
}

func c02Run(c c02Case, st *vlib.Stats) string {
	b, _ := json.Marshal(c)
	smallRecover, smallRecoverStats = c.SmallRecover, st
	defer func() { smallRecover = 0 }()
	dir := CaseDir("c02")
	imgDir := filepath.Join(WorkDir, "c02-img")
	defer os.RemoveAll(imgDir)
	eng, err := mk.Start(dir)
	if err == nil {
		if err = CreateDatabases(eng); err == nil {
			err = eng.Exec("USE " + DBName)
		}
	}
	if err != nil {
		return "setup failed: " + err.Error()
	}
	defer func() {
		if eng != nil {
			eng.Crash(true)
		}
	}()
	if err := AgeDatabase(eng, c.Age); err != nil {
		return "advancing the counters failed: " + err.Error()
	}
	m := model.NewDB()
	tr := NewIDTracker()
	var labels []string
	mixed, hasMut, images := false, false, 0
	hasRefused := false
	for si, seg := range c.Segments {
		flushedSomething := false
		for i, s := range seg.Stmts {
			if s.Fails {
				if kind, merr := m.Apply(s); kind == model.OK && merr == nil {
					return fmt.Sprintf("harness: the statement meant to fail is valid in the model (segment %d statement %d)", si, i)
				}
				err := eng.ExecStmt(s)
				if err == nil {
					// refusing it is C08's and C14's subject, not this property's: nothing to conclude here
					st.Label("case-dropped(invalid statement accepted)", 1)
					return ""
				}
				if mk.IsPanic(err) {
					return fmt.Sprintf("segment %d statement %d: %v\n  %s", si, i, err, s)
				}
				hasRefused = true
			} else {
				kind, merr := m.Apply(s)
				if merr != nil || kind != model.OK {
					return fmt.Sprintf("case is not valid in the model (segment %d statement %d: %v %v)", si, i, kind, merr)
				}
				if err := eng.ExecStmt(s); err != nil {
					return fmt.Sprintf("segment %d statement %d is valid but was refused: %v\n  %s", si, i, err, s)
				}
			}
			if s.Kind == "update" || s.Kind == "delete" {
				hasMut = true
			}
			if s.FlushAfter {
				if err := eng.Flush(); err != nil {
					return fmt.Sprintf("flush failed: %v", err)
				}
				flushedSomething = true
			}
			if s.Kind == "create" {
				flushedSomething = true // CREATE TABLE ends with a flush
			}
			if (si == 0 || Cfg.Tier == "thorough") && c.ImageEvery > 0 && (i+1)%c.ImageEvery == 0 && i+1 < len(seg.Stmts) && (si > 0 || i+1 >= c.Preload) {
				// crash right after this statement, on a copy
				dirty := len(eng.RS().VerifDirtyOffsets())
				if dirty > 0 && flushedSomething {
					mixed = true
				}
				os.RemoveAll(imgDir)
				if err := mk.CopyDataDir(dir, imgDir); err != nil {
					return "image copy failed: " + err.Error()
				}
				images++
				e2, msg := recoverAndCompare(imgDir, m, tr, fmt.Sprintf("crash after statement %d of segment %d (%s)", i, si, s))
				if e2 != nil {
					e2.Crash(false)
				}
				os.Chdir(dir)
				if msg != "" {
					return msg
				}
			}
		}
		dirty := 0
		if eng.RS() != nil {
			dirty = len(eng.RS().VerifDirtyOffsets())
		}
		if dirty > 0 && flushedSomething {
			mixed = true
		}
		if seg.End == "shutdown" {
			if err := eng.Shutdown(); err != nil {
				return fmt.Sprintf("clean shutdown failed: %v", err)
			}
			eng.Sess.RelationService = nil
			labels = append(labels, "end-shutdown")
		} else if seg.End == "tornflush" {
			// a timer tick starts after the last statement and the process dies inside it
			tbl := filepath.Join(dir, "data", DBName, "tbl")
			wal := filepath.Join(dir, "data", DBName, "wal")
			var rec *flushRec
			storage.VerifHook = func(point string, arg uint64) {
				switch point {
				case "flush.begin":
					pre, _ := os.ReadFile(tbl)
					w, _ := os.ReadFile(wal)
					rec = &flushRec{pre: pre, wal: w, hdrAt: -1}
				case "page.write":
					if rec != nil {
						rec.order = append(rec.order, arg)
					}
				case "flush.end":
					if rec != nil && rec.post == nil {
						rec.post, _ = os.ReadFile(tbl)
					}
				}
			}
			ferr := eng.Flush()
			storage.VerifHook = nil
			if ferr != nil || rec == nil || rec.post == nil {
				return fmt.Sprintf("flush failed: %v", ferr)
			}
			eng.Crash(true)
			D := rec.dirty()
			var S []uint64
			for bi, o := range D {
				if seg.TornMask&(1<<uint(bi%64)) != 0 {
					S = append(S, o)
				}
			}
			if rec.hasFresh() && len(S) > 0 && len(S) < len(D) {
				// region of the listed finding C04-torn-flush-fresh-pages: steer to the nearest state outside it
				st.Exclude(1)
				if seg.TornMask&(1<<63) != 0 {
					S = D
				} else {
					S = nil
				}
			}
			if err := rec.compose(dir, S, false); err != nil {
				return "compose failed: " + err.Error()
			}
			labels = append(labels, "end-tornflush")
			if len(S) > 0 && len(S) < len(D) {
				labels = append(labels, "end-tornflush-proper-subset")
			}
		} else {
			eng.Crash(true)
			labels = append(labels, "end-crash")
		}
		var msg string
		eng, msg = recoverAndCompare(dir, m, tr, fmt.Sprintf("%s at the end of segment %d", seg.End, si))
		if msg != "" {
			return msg
		}
	}
	// the recovered database keeps working: one more insert per table gets a fresh id
	for _, name := range m.TableNames() {
		t := m.Tables[name]
		s := model.Stmt{Kind: "insert", Table: name, Rows: [][]model.Val{make([]model.Val, len(t.Cols))}}
		for i := range t.Cols {
			s.Rows[0][i] = model.Null()
		}
		m.Apply(s)
		if err := eng.ExecStmt(s); err != nil {
			return fmt.Sprintf("insert into %s after the last recovery failed: %v", name, err)
		}
		if msg := CompareTable(eng, t, tr); msg != "" {
			return "after the final insert: " + msg
		}
	}
	if mixed {
		labels = append(labels, "mixed-logonly-and-flushed")
	}
	if len(c.Segments) >= 2 {
		labels = append(labels, "multi-crash")
	}
	if c.Preload > 0 {
		labels = append(labels, "deep-tree(three levels)")
	}
	if hasRefused {
		labels = append(labels, "refused-statements-in-between")
	}
	st.AddExtra("crash_images_recovered", images+2*len(c.Segments))
	st.Record(b, mixed && hasMut, labels...)
	return ""
}

func TestC02(t *testing.T) {
	vlib.Drive(t, vlib.Prop[c02Case]{ID: "C02", Gen: c02Gen, Run: c02Run})
}
