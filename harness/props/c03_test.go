package props

// C03 - a crash while a statement is being logged leaves a row-prefix state.

import (
	"encoding/json"
	"fmt"
	"os"
	"path/filepath"
	"testing"

	"github.com/mk6i/mkdb/storage"
	"pgregory.net/rapid"

	"verif/harness/gen"
	"verif/harness/mk"
	"verif/harness/model"
	"verif/vlib"
)

type c03Case struct {
	Stmts      []model.Stmt `json:"stmts"`
	VictimPick []int        `json:"victim_pick"` // which eligible statements are victims (indexes modulo)
	After      []c03After   `json:"after"`       // follow-up work on every recovered image
	// WrapLog: crash points before every PHYSICAL write to the log (the log file is wrapped,
	// hook wal.fwrite) instead of before the logical write in wal.flush (hook wal.write)
	WrapLog bool `json:"wrap_log,omitempty"`
	// Age > 0: the database starts with the row-id and LSN counters of a database long in use (props.Ages)
	Age int `json:"age,omitempty"`
	// RestartBefore[i] = "shutdown" | "crash": the process is restarted (start-up
	// recovery included) right before statement i
	RestartBefore map[int]string `json:"restart_before,omitempty"`
}

// c03After is a follow-up statement template that is valid in every prefix
// state: an n-row insert of NULL rows or small values into the victim's table.
type c03After struct {
	Rows int  `json:"rows"`
	Null bool `json:"null"`
}

func c03Gen(rt *rapid.T) c03Case {
	cfg := gen.HistCfg{
		MinStmts: 3, MaxStmts: 18, MaxTables: 3, MaxCols: 4, Direct: true,
		RowCounts:  []int{1, 2, 3, 4, 5, 8, 9, 10, 12},
		Small:      true,
		FlushFlags: true,
	}
	if rapid.IntRange(0, 3).Draw(rt, "bigrows") == 0 {
		// victims whose log records exceed a few KiB: wide rows, many of them
		cfg.Small = false
		cfg.RowCounts = []int{1, 2, 9, 12, 20, 40}
		cfg.MaxStmts = 10
	}
	db := model.NewDB()
	var pre []model.Stmt
	if rapid.IntRange(0, 4).Draw(rt, "manytables") == 0 {
		// a catalog that no longer fits one page: victims that move a table's
		// root log a catalog update addressed to a catalog LEAF
		for k := rapid.IntRange(7, 11).Draw(rt, "ntables"); k > 0; k-- {
			cr := gen.CreateStmt(rt, 3, db)
			gen.MustApply(db, cr)
			pre = append(pre, cr)
		}
		cfg.MaxTables = len(pre)
		cfg.MinStmts = 6
	}
	c := c03Case{Age: DrawAge(rt), Stmts: append(pre, gen.History(rt, cfg, db)...)}
	if rapid.IntRange(0, 5).Draw(rt, "restartprofile") == 0 {
		// a burst of CREATE TABLEs (they consume log sequence numbers without logging),
		// a restart, then a root move and further statements - the victims' images then
		// hold records written by a process whose counters were rebuilt by recovery
		for k := rapid.IntRange(2, 5).Draw(rt, "burst_creates"); k > 0; k-- {
			cr := gen.CreateStmt(rt, 3, db)
			gen.MustApply(db, cr)
			c.Stmts = append(c.Stmts, cr)
		}
		c.RestartBefore = map[int]string{len(c.Stmts): rapid.SampledFrom([]string{"shutdown", "crash"}).Draw(rt, "restartkind")}
		names := db.TableNames()
		t := db.Tables[names[rapid.IntRange(0, len(names)-1).Draw(rt, "burst_tbl")]]
		ins := gen.TextInsert(rt, t, rapid.SampledFrom([]int{8, 9, 10, 17}).Draw(rt, "burst_rows"), true)
		gen.MustApply(db, ins)
		c.Stmts = append(c.Stmts, ins)
		tail := cfg
		tail.MinStmts, tail.MaxStmts = 2, 6
		c.Stmts = append(c.Stmts, gen.History(rt, tail, db)...)
	}
	c.VictimPick = rapid.SliceOfN(rapid.IntRange(0, 1000), 1, 3).Draw(rt, "victims")
	c.WrapLog = rapid.Bool().Draw(rt, "wraplog")
	n := rapid.IntRange(1, 3).Draw(rt, "nafter")
	for i := 0; i < n; i++ {
		c.After = append(c.After, c03After{Rows: rapid.SampledFrom([]int{1, 2, 5, 9, 10}).Draw(rt, "after_rows"), Null: rapid.Bool().Draw(rt, "after_null")})
	}
	return c
}

type c03Image struct {
	dir      string
	event    string
	cutFsync bool
}

func afterStmt(t *model.Table, a c03After, k int) model.Stmt {
	s := model.Stmt{Kind: "insert", Table: t.Name}
	for i := 0; i < a.Rows; i++ {
		row := make([]model.Val, len(t.Cols))
		for ci, c := range t.Cols {
			if a.Null {
				row[ci] = model.Null()
				continue
			}
			switch c.Type {
			case model.TInt, model.TBigInt:
				row[ci] = model.Int(int64(1000 + 10*k + i))
			case model.TBool:
				row[ci] = model.Bool(i%2 == 0)
			case model.TVarchar:
				row[ci] = model.Str(fmt.Sprintf("after%d-%d", k, i))
			}
		}
		s.Rows = append(s.Rows, row)
	}
	return s
}

func walSize(dir string) int64 {
	fi, err := os.Stat(filepath.Join(dir, "data", DBName, "wal"))
	if err != nil {
		return 0
	}
	return fi.Size()
}

func c03Run(c c03Case, st *vlib.Stats) string {
	b, _ := json.Marshal(c)
	dir := CaseDir("c03")
	imgRoot := filepath.Join(WorkDir, "c03-img")
	os.RemoveAll(imgRoot)
	defer os.RemoveAll(imgRoot)
	defer func() { storage.VerifHook = nil }()
	eng, err := mk.Start(dir)
	if err == nil {
		if err = CreateDatabases(eng); err == nil {
			err = eng.Exec("USE " + DBName)
		}
	}
	if err != nil {
		return "setup failed: " + err.Error()
	}
	if err := AgeDatabase(eng, c.Age); err != nil {
		return "advancing the counters failed: " + err.Error()
	}
	if c.WrapLog {
		eng.RS().VerifWrapLog()
	}
	defer func() { eng.Crash(true) }()
	m := model.NewDB()

	// which statements are victims
	dry := model.NewDB()
	var eligible []int
	for i, s := range c.Stmts {
		if s.Kind != "create" {
			if n, _ := dry.RowOps(s); n >= 2 {
				eligible = append(eligible, i, i, i) // statements with several row operations are preferred
			} else if n == 1 {
				eligible = append(eligible, i)
			}
		}
		dry.Apply(s)
	}
	victims := map[int]bool{}
	if len(eligible) > 0 {
		for _, p := range c.VictimPick {
			victims[eligible[p%len(eligible)]] = true
		}
	}

	var labels []string
	nontrivial := false
	imagesTotal := 0
	// what is durable in the log: its size at the last fsync of ANY statement
	// (a statement that returns without an fsync leaves its records at the mercy
	// of the "cut at the last fsync" crash model of the next victim)
	lastSyncSize := walSize(dir)
	baseHook := func(point string, arg uint64) {
		if point == "wal.sync" {
			lastSyncSize = walSize(dir)
		}
	}
	storage.VerifHook = baseHook
	for i, s := range c.Stmts {
		if how := c.RestartBefore[i]; how != "" {
			if how == "crash" {
				eng.Crash(true)
			} else if err := eng.Shutdown(); err != nil {
				return fmt.Sprintf("clean shutdown before statement %d failed: %v", i, err)
			}
			eng.Sess.RelationService = nil
			e2, err := mk.Start(dir)
			if err != nil {
				return fmt.Sprintf("restart (%s) before statement %d failed: %v", how, i, err)
			}
			eng = e2
			if err := eng.Exec("USE " + DBName); err != nil {
				return "USE after restart failed: " + err.Error()
			}
			if c.WrapLog {
				eng.RS().VerifWrapLog()
			}
			if msg := CompareAll(eng, m, nil); msg != "" {
				return fmt.Sprintf("after the restart (%s) before statement %d: %s", how, i, msg)
			}
			lastSyncSize = walSize(dir) // only process deaths are modelled for what came before the restart
			labels = append(labels, "restart-inside-history")
		}
		if !victims[i] {
			if k, merr := m.Apply(s); merr != nil || k != model.OK {
				return fmt.Sprintf("case is not valid in the model (statement %d: %v %v)", i, k, merr)
			}
			if err := eng.ExecStmt(s); err != nil {
				return fmt.Sprintf("statement %d is valid but was refused: %v\n  %s", i, err, s)
			}
			if s.FlushAfter {
				eng.Flush()
			}
			continue
		}
		// ---- victim: capture an image before every write and fsync on the log
		pre := m.Clone()
		nops, _ := pre.RowOps(s)
		var images []c03Image
		var hookErr error
		storage.VerifHook = func(point string, arg uint64) {
			// every write to the log - the physical ones (wal.fwrite, announced by the wrapped log
			// file itself) or the logical one in wal.flush - and every fsync
			writePoint := "wal.write"
			if c.WrapLog {
				writePoint = "wal.fwrite"
			}
			if point != writePoint && point != "wal.sync" {
				return
			}
			id := len(images)
			// (a) the files as they are: log cut at the last completed write
			d := filepath.Join(imgRoot, fmt.Sprintf("v%d-%d-w", i, id))
			if err := mk.CopyDataDir(dir, d); err != nil {
				hookErr = err
				return
			}
			images = append(images, c03Image{dir: d, event: fmt.Sprintf("%s#%d", point, id)})
			// (b) the log cut at the last fsync
			d2 := filepath.Join(imgRoot, fmt.Sprintf("v%d-%d-s", i, id))
			if err := mk.CopyDataDir(dir, d2); err != nil {
				hookErr = err
				return
			}
			if err := os.Truncate(filepath.Join(d2, "data", DBName, "wal"), lastSyncSize); err != nil {
				hookErr = err
				return
			}
			images = append(images, c03Image{dir: d2, event: fmt.Sprintf("%s#%d", point, id), cutFsync: true})
			if point == "wal.sync" {
				lastSyncSize = walSize(dir) // everything written so far becomes durable
			}
		}
		execErr := eng.ExecStmt(s)
		storage.VerifHook = baseHook
		if hookErr != nil {
			return "image capture failed: " + hookErr.Error()
		}
		if k, merr := m.Apply(s); merr != nil || k != model.OK {
			return fmt.Sprintf("case is not valid in the model (statement %d: %v %v)", i, k, merr)
		}
		if execErr != nil {
			return fmt.Sprintf("statement %d is valid but was refused: %v\n  %s", i, execErr, s)
		}
		if s.FlushAfter {
			eng.Flush()
		}
		// ---- recover every image
		sawPartial := false
		seenR := map[int]bool{}
		for _, img := range images {
			imagesTotal++
			what := fmt.Sprintf("crash before %s of statement %d (%s), log cut at last %s", img.event, i, s, map[bool]string{false: "write", true: "fsync"}[img.cutFsync])
			e2, err := mk.Start(img.dir)
			if err != nil {
				os.Chdir(dir)
				return fmt.Sprintf("%s: the database does not start: %v", what, err)
			}
			msg := func() string {
				defer func() { e2.Crash(false) }()
				if err := e2.Exec("USE " + DBName); err != nil {
					return "USE failed: " + err.Error()
				}
				// find the prefix the recovered state corresponds to
				var state *model.DB
				r := -1
				var firstMsg string
				for cand := 0; cand <= nops; cand++ {
					cm := pre.Clone()
					if err := cm.ApplyPrefix(s, cand); err != nil {
						return "harness: " + err.Error()
					}
					mm := CompareAll(e2, cm, nil)
					if mm == "" {
						state, r = cm, cand
						break
					}
					if cand == 0 {
						firstMsg = mm
					}
				}
				if state == nil {
					return fmt.Sprintf("recovered state is not 'before the statement plus a prefix of its %d row operations'; against the state before the statement: %s", nops, firstMsg)
				}
				seenR[r] = true
				if r > 0 && r < nops {
					sawPartial = true
				}
				// statements issued after that recovery behave as on an uncrashed database
				tr := NewIDTracker()
				if mm := CompareAll(e2, state, tr); mm != "" {
					return mm
				}
				t := state.Tables[s.Table]
				for k, a := range c.After {
					as := afterStmt(t, a, k)
					if kk, merr := state.Apply(as); merr != nil || kk != model.OK {
						return fmt.Sprintf("harness: follow-up invalid: %v %v", kk, merr)
					}
					if err := e2.ExecStmt(as); err != nil {
						return fmt.Sprintf("follow-up insert %d (prefix r=%d of %d) was refused: %v", k, r, nops, err)
					}
					if mm := CompareAll(e2, state, tr); mm != "" {
						return fmt.Sprintf("after follow-up insert %d of %d rows (recovered prefix r=%d of %d): %s", k, a.Rows, r, nops, mm)
					}
				}
				// ... in every table, not only the victim's
				for _, name := range state.TableNames() {
					if name == s.Table {
						continue
					}
					ot := state.Tables[name]
					as := model.Stmt{Kind: "insert", Table: name, Rows: [][]model.Val{make([]model.Val, len(ot.Cols))}}
					for ci := range ot.Cols {
						as.Rows[0][ci] = model.Null()
					}
					state.Apply(as)
					if err := e2.ExecStmt(as); err != nil {
						return fmt.Sprintf("follow-up insert into %s (recovered prefix r=%d of %d) was refused: %v", name, r, nops, err)
					}
					if mm := CompareTable(e2, ot, tr); mm != "" {
						return fmt.Sprintf("after a follow-up insert into %s (recovered prefix r=%d of %d): %s", name, r, nops, mm)
					}
				}
				// ... and the log they were appended to must carry the next start too: whatever
				// the interrupted statement left at the end of the log is now in its middle
				how := "process death"
				if imagesTotal%2 == 0 {
					how = "clean shutdown"
					if err := e2.Shutdown(); err != nil {
						return "clean shutdown after the follow-up inserts failed: " + err.Error()
					}
					e2.Sess.RelationService = nil
				} else {
					e2.Crash(false)
				}
				e3, err := mk.Start(img.dir)
				if err != nil {
					return fmt.Sprintf("after the recovery, the follow-up inserts and a %s the database does not start: %v", how, err)
				}
				e2 = e3
				if err := e2.Exec("USE " + DBName); err != nil {
					return "USE failed after the second start: " + err.Error()
				}
				if mm := CompareAll(e2, state, nil); mm != "" {
					return fmt.Sprintf("after the recovery (prefix r=%d of %d), the follow-up inserts, a %s and another start: %s", r, nops, how, mm)
				}
				return ""
			}()
			os.Chdir(dir)
			if msg != "" {
				return what + ": " + msg
			}
		}
		if nops >= 3 && len(seenR) >= 2 {
			nontrivial = true
		}
		if sawPartial {
			labels = append(labels, "partial-prefix-observed")
		}
		labels = append(labels, "victim-"+s.Kind)
		os.RemoveAll(imgRoot)
	}
	st.AddExtra("crash_images_recovered", imagesTotal)
	if len(victims) == 0 {
		labels = append(labels, "no-victim")
	}
	st.Record(b, nontrivial, labels...)
	return ""
}

func TestC03(t *testing.T) {
	vlib.Drive(t, vlib.Prop[c03Case]{ID: "C03", Gen: c03Gen, Run: c03Run})
}
