package props

// C04 - a crash while the page cache is being flushed loses nothing.
//
// Every flush of a generated history is recorded through the verif hooks
// (pre-flush file, the pages written, post-flush file). Torn states are
// COMPOSED: pre-flush file + any subset S of the post-flush pages, header old.
// Go's map order makes every subset a reachable crash state, so subsets are
// enumerated instead of relying on the order one run happened to take.

import (
	"bytes"
	"encoding/binary"
	"encoding/json"
	"fmt"
	"os"
	"os/exec"
	"path/filepath"
	"sort"
	"testing"

	"github.com/mk6i/mkdb/storage"
	"pgregory.net/rapid"

	"verif/harness/gen"
	"verif/harness/mk"
	"verif/harness/model"
	"verif/vlib"
)

const pageSize = 4096

const c04KnownID = "C04-torn-flush-fresh-pages"

type c04Case struct {
	Stmts         []model.Stmt `json:"stmts"`
	End           string       `json:"end"` // shutdown | crash
	SubsetSeed    uint64       `json:"subset_seed"`
	RecoveryFlush bool         `json:"recovery_flush"`
	// replay files of the listed finding pin one torn state: flush index and subset
	OnlyFlush  int      `json:"only_flush,omitempty"` // 1-based; 0 = all
	OnlySubset []uint64 `json:"only_subset,omitempty"`
	InRegion   bool     `json:"in_region,omitempty"` // run in-region subsets too (child process)
	Bulk       bool     `json:"bulk,omitempty"`      // starts with an unflushed bulk load
}

func c04Gen(rt *rapid.T) c04Case {
	cfg := gen.HistCfg{
		MinStmts: 3, MaxStmts: 16, MaxTables: 3, MaxCols: 3, Direct: true,
		RowCounts: []int{1, 1, 1, 1, 2, 2, 3, 4, 8, 9},
		Small:     true,
	}
	db := model.NewDB()
	c := c04Case{}
	grown := 0
	if rapid.IntRange(0, 39).Draw(rt, "bulk") == 17 {
		// one flush that has hundreds of dirty pages to write (a bulk load inside
		// one timer interval), then ordinary small statements and flushes
		cr := model.Stmt{Kind: "create", Table: "big", Cols: []model.Col{{Name: "a", Type: model.TInt}, {Name: "s", Type: model.TVarchar, Len: 16}}}
		cr.SQL = gen.RenderStmt(gen.Plain(), cr)
		gen.MustApply(db, cr)
		c.Stmts = append(c.Stmts, cr)
		sizes := []int{1040, 1100, 1200, 1400}
		if Cfg.Tier == "thorough" {
			sizes = append(sizes, 1760) // past the first split of a non-root internal page (costly: one flush of 400+ pages)
		}
		rows := rapid.SampledFrom(sizes).Draw(rt, "bulk_rows")
		for n := 0; n < rows; {
			ins := model.Stmt{Kind: "insert", Table: "big"}
			for i := 0; i < 100 && n < rows; i++ {
				ins.Rows = append(ins.Rows, []model.Val{model.Int(int64(n)), model.Str(fmt.Sprintf("v%d", n%7))})
				n++
			}
			ins.SQL = gen.RenderStmt(gen.Plain(), ins)
			gen.MustApply(db, ins)
			c.Stmts = append(c.Stmts, ins)
		}
		grown = len(c.Stmts)
		cfg.NoDDLAfterStart = true
		cfg.RowCounts = []int{1, 1, 2}
		cfg.MinStmts, cfg.MaxStmts = 2, 6
		c.Bulk = true
	} else if rapid.IntRange(0, 5).Draw(rt, "manytables") == 0 {
		// a catalog about to outgrow its first page: one of the CREATE TABLEs of
		// this history splits the catalog's root, and its closing flush has to
		// publish a new catalog root through the header
		for k := rapid.IntRange(4, 8).Draw(rt, "ntables"); k > 0; k-- {
			cr := gen.CreateStmt(rt, 2, db)
			gen.MustApply(db, cr)
			c.Stmts = append(c.Stmts, cr)
		}
		cfg.MaxTables = 10
		c.Stmts = append(c.Stmts, gen.History(rt, cfg, db)...)
	} else if rapid.IntRange(0, 2).Draw(rt, "grownfirst") > 0 {
		// phase 1: grow the tables over several leaves and flush; phase 2 then changes
		// several existing pages between flushes without allocating - the multi-page
		// flushes outside the listed finding's region
		grow := cfg
		grow.MinStmts, grow.MaxStmts, grow.RowCounts = 4, 9, []int{9, 10, 17, 18, 30}
		c.Stmts = gen.History(rt, grow, db)
		grown = len(c.Stmts)
		cfg.NoDDLAfterStart = true
		cfg.RowCounts = []int{1, 1, 1, 2}
		cfg.MinStmts, cfg.MaxStmts = 4, 14
	}
	if len(c.Stmts) == 0 || grown > 0 {
		c.Stmts = append(c.Stmts, gen.History(rt, cfg, db)...)
	}
	if rapid.IntRange(0, 3).Draw(rt, "failing") == 0 {
		// refused statements in between (oversize or mistyped single-row INSERTs)
		known := map[string]bool{}
		var out []model.Stmt
		for i, s := range c.Stmts {
			out = append(out, s)
			known[s.Table] = true
			if i >= grown && rapid.IntRange(0, 4).Draw(rt, "failhere") == 0 {
				var names []string
				for n := range known {
					names = append(names, n)
				}
				sort.Strings(names)
				out = append(out, gen.FailingInsert(rt, db.Tables[names[rapid.IntRange(0, len(names)-1).Draw(rt, "failtbl")]]))
			}
		}
		c.Stmts = out // (insertions happen behind the first 'grown' statements only)
	}
	// many flushes right after small, split-free statements: the region outside
	// the listed finding must be well populated
	mode := rapid.SampledFrom([]string{"always", "often", "often", "rare"}).Draw(rt, "flushmode")
	if grown > 0 {
		mode = rapid.SampledFrom([]string{"often", "rare", "rare"}).Draw(rt, "flushmode2")
	}
	for i := range c.Stmts {
		if i < grown {
			c.Stmts[i].FlushAfter = i == grown-1 || (!c.Bulk && rapid.IntRange(0, 3).Draw(rt, "growfl") == 0)
			continue
		}
		switch mode {
		case "always":
			c.Stmts[i].FlushAfter = true
		case "often":
			c.Stmts[i].FlushAfter = rapid.IntRange(0, 2).Draw(rt, "fl") > 0
		case "rare":
			c.Stmts[i].FlushAfter = rapid.IntRange(0, 3).Draw(rt, "fl") == 0
		}
	}
	c.End = rapid.SampledFrom([]string{"shutdown", "crash", "crash"}).Draw(rt, "end")
	c.SubsetSeed = rapid.Uint64().Draw(rt, "subset_seed")
	c.RecoveryFlush = rapid.IntRange(0, 2).Draw(rt, "recflush") > 0
	return c
}

// flushRec is one recorded flush.
type flushRec struct {
	trigger  string // timer | create | shutdown | recovery
	pre      []byte // data file before the flush
	wal      []byte
	post     []byte // data file after the flush
	order    []uint64
	hdrAt    int         // number of page writes that preceded the header write (-1: no header write seen)
	acked    *model.DB   // model of all acknowledged statements at flush begin
	inflight *model.Stmt // CREATE TABLE in progress, if any
}

func (f *flushRec) frontier() uint64 {
	if len(f.pre) < 28 {
		return 0
	}
	return binary.LittleEndian.Uint64(f.pre[12:20])
}

func (f *flushRec) dirty() []uint64 {
	seen := map[uint64]bool{}
	var d []uint64
	for _, o := range f.order {
		if !seen[o] {
			seen[o] = true
			d = append(d, o)
		}
	}
	sort.Slice(d, func(i, j int) bool { return d[i] < d[j] })
	return d
}

func (f *flushRec) hasFresh() bool {
	fr := f.frontier()
	for _, o := range f.order {
		if o >= fr {
			return true
		}
	}
	return false
}

// compose writes the torn state "pre + pages S of post, old header" into dir.
func (f *flushRec) compose(dir string, S []uint64, newHeader bool) error {
	size := len(f.pre)
	for _, o := range S {
		if int(o)+pageSize > size {
			size = int(o) + pageSize
		}
	}
	img := make([]byte, size)
	copy(img, f.pre)
	for _, o := range S {
		if int(o)+pageSize > len(f.post) {
			return fmt.Errorf("page %d not in post image", o)
		}
		copy(img[o:int(o)+pageSize], f.post[o:int(o)+pageSize])
	}
	if newHeader {
		copy(img[0:28], f.post[0:28])
	}
	d := filepath.Join(dir, "data", DBName)
	if err := os.MkdirAll(d, 0755); err != nil {
		return err
	}
	if err := os.WriteFile(filepath.Join(d, "tbl"), img, 0644); err != nil {
		return err
	}
	return os.WriteFile(filepath.Join(d, "wal"), f.wal, 0644)
}

// subsets enumerates all subsets of D when |D| <= 6, else a sample of >= 64
// including the empty set, D, every singleton and every co-singleton.
func subsets(D []uint64, seed uint64) [][]uint64 {
	n := len(D)
	var masks []uint64
	if n <= 6 {
		for m := uint64(0); m < 1<<uint(n); m++ {
			masks = append(masks, m)
		}
	} else {
		full := uint64(1)<<uint(n) - 1
		seen := map[uint64]bool{}
		add := func(m uint64) {
			m &= full
			if !seen[m] {
				seen[m] = true
				masks = append(masks, m)
			}
		}
		add(0)
		add(full)
		for i := 0; i < n; i++ {
			add(1 << uint(i))
			add(full &^ (1 << uint(i)))
		}
		x := seed | 1
		for len(masks) < 64+2*n {
			x ^= x << 13
			x ^= x >> 7
			x ^= x << 17
			add(x)
		}
	}
	var out [][]uint64
	for _, m := range masks {
		var s []uint64
		for i := 0; i < n; i++ {
			if m&(1<<uint(i)) != 0 {
				s = append(s, D[i])
			}
		}
		out = append(out, s)
	}
	return out
}

// recoverCompare recovers the composed image in-process and compares it with
// the acknowledged state (an in-flight CREATE TABLE may or may not exist).
func recoverCompare(img string, f *flushRec) string { return recoverCompareThen(img, f, false) }

// recoverCompareThen recovers the image and compares it with the acknowledged
// state (with or without the statement that was in flight). With followUp it
// then issues one more acknowledged INSERT per table, lets the process die
// again without a flush, recovers a second time and compares once more: what
// the first recovery left behind (page stamps, counters) must not make the
// second one drop a statement acknowledged in between.
func recoverCompareThen(img string, f *flushRec, followUp bool) string {
	eng, err := mk.Start(img)
	if err != nil {
		return "the database does not start: " + err.Error()
	}
	defer func() { eng.Crash(false) }()
	if err := eng.Exec("USE " + DBName); err != nil {
		return "USE failed: " + err.Error()
	}
	state := f.acked
	msg := CompareAll(eng, f.acked, nil)
	if msg != "" {
		if f.inflight == nil {
			return msg
		}
		with := f.acked.Clone()
		with.Apply(*f.inflight)
		if msg2 := CompareAll(eng, with, nil); msg2 != "" {
			return msg
		}
		state = with
	}
	if !followUp {
		return ""
	}
	m := state.Clone()
	names := m.TableNames()
	// newest table first: the first statement after the recovery then meets the
	// pages and counters the interrupted statement left behind
	for i, j := 0, len(names)-1; i < j; i, j = i+1, j-1 {
		names[i], names[j] = names[j], names[i]
	}
	for ni, name := range names {
		t := m.Tables[name]
		s := model.Stmt{Kind: "insert", Table: name, Rows: [][]model.Val{make([]model.Val, len(t.Cols))}}
		for i := range t.Cols {
			s.Rows[0][i] = model.Null()
		}
		if ni == 0 && (len(t.Rows)+len(names))%2 == 0 {
			// in half of the follow-ups the first insert is large enough to split a leaf: the
			// recovered allocation frontier is used at once
			for len(s.Rows) < 9 {
				s.Rows = append(s.Rows, s.Rows[0])
			}
		}
		m.Apply(s)
		if err := eng.ExecStmt(s); err != nil {
			return fmt.Sprintf("after the recovery an insert into %s is refused: %v", name, err)
		}
	}
	if msg := CompareAll(eng, m, nil); msg != "" {
		return "after the recovery and one insert per table: " + msg
	}
	eng.Crash(false)
	eng, err = mk.Start(img)
	if err != nil {
		return "after the recovery, one insert per table and another process death the database does not start: " + err.Error()
	}
	if err := eng.Exec("USE " + DBName); err != nil {
		return "USE failed: " + err.Error()
	}
	if msg := CompareAll(eng, m, nil); msg != "" {
		return "after the recovery, one insert per table, another process death and recovery: " + msg
	}
	return ""
}

type childReq struct {
	Dir      string            `json:"dir"`
	Acked    []model.DumpTable `json:"acked"`
	Inflight *model.Stmt       `json:"inflight"`
}

// recoverCompareChild does the same in a child process: recovery inside the
// listed finding's region can die with a stack overflow no recover() catches.
func recoverCompareChild(img string, f *flushRec) (msg string, died bool) {
	req := childReq{Dir: img, Acked: f.acked.Dump(), Inflight: f.inflight}
	b, _ := json.Marshal(req)
	reqFile := filepath.Join(img, "req.json")
	outFile := filepath.Join(img, "out.txt")
	os.WriteFile(reqFile, b, 0644)
	cmd := exec.Command(os.Args[0], "-test.run", "^TestC04Child$", "-test.timeout", "60s")
	cmd.Env = append(os.Environ(), "VERIF_CHILD_REQ="+reqFile, "VERIF_CHILD_OUT="+outFile, "VERIF_OUT="+img, "VERIF_REPLAY=")
	cmd.Run()
	out, err := os.ReadFile(outFile)
	if err != nil {
		return "child process died during recovery (no result written)", true
	}
	return string(out), false
}

func TestC04Child(t *testing.T) {
	reqFile := os.Getenv("VERIF_CHILD_REQ")
	if reqFile == "" {
		t.Skip("helper for C04")
	}
	b, err := os.ReadFile(reqFile)
	if err != nil {
		t.Fatal(err)
	}
	var req childReq
	if err := json.Unmarshal(b, &req); err != nil {
		t.Fatal(err)
	}
	f := &flushRec{acked: model.LoadDump(req.Acked), inflight: req.Inflight}
	msg := recoverCompare(req.Dir, f)
	os.WriteFile(os.Getenv("VERIF_CHILD_OUT"), []byte(msg), 0644)
}

func sameSet(a, b []uint64) bool {
	if len(a) != len(b) {
		return false
	}
	for i := range a {
		if a[i] != b[i] {
			return false
		}
	}
	return true
}

func c04Run(c c04Case, st *vlib.Stats) string {
	b, _ := json.Marshal(c)
	dir := CaseDir("c04")
	imgRoot := filepath.Join(WorkDir, "c04-img")
	os.RemoveAll(imgRoot)
	defer os.RemoveAll(imgRoot)
	defer func() { storage.VerifHook = nil }()

	tblPath := filepath.Join(dir, "data", DBName, "tbl")
	walPath := filepath.Join(dir, "data", DBName, "wal")

	eng, err := mk.Start(dir)
	if err == nil {
		if err = CreateDatabases(eng); err == nil {
			err = eng.Exec("USE " + DBName)
		}
	}
	if err != nil {
		return "setup failed: " + err.Error()
	}
	alive := true
	defer func() {
		if alive {
			eng.Crash(true)
		}
	}()

	m := model.NewDB()
	var recs []*flushRec
	var cur *flushRec
	var inflight *model.Stmt
	trigger := "timer"
	var hookErr error
	hook := func(tbl, wal string, acked func() *model.DB) func(string, uint64) {
		return func(point string, arg uint64) {
			switch point {
			case "flush.begin":
				pre, e1 := os.ReadFile(tbl)
				w, e2 := os.ReadFile(wal)
				if e1 != nil || e2 != nil {
					hookErr = fmt.Errorf("snapshot: %v %v", e1, e2)
				}
				cur = &flushRec{trigger: trigger, pre: pre, wal: w, acked: acked(), inflight: inflight, hdrAt: -1}
			case "header.write":
				if cur != nil && cur.hdrAt < 0 {
					cur.hdrAt = len(cur.order)
				}
			case "page.write":
				if cur != nil {
					cur.order = append(cur.order, arg)
				}
			case "flush.end":
				if cur != nil {
					post, e := os.ReadFile(tbl)
					if e != nil {
						hookErr = e
					}
					cur.post = post
					recs = append(recs, cur)
					cur = nil
				}
			}
		}
	}
	storage.VerifHook = hook(tblPath, walPath, func() *model.DB { return m.Clone() })

	for i, s := range c.Stmts {
		s := s
		if s.Fails {
			// invalid on purpose: must be refused, is not acknowledged, must leave no trace
			if k, merr := m.Apply(s); k == model.OK && merr == nil {
				return fmt.Sprintf("harness: the statement meant to fail is valid in the model (statement %d)", i)
			}
			if err := eng.ExecStmt(s); err == nil {
				st.Label("case-dropped(invalid statement accepted)", 1)
				return ""
			} else if mk.IsPanic(err) {
				return fmt.Sprintf("statement %d: %v\n  %s", i, err, s)
			}
			if s.FlushAfter {
				if err := eng.Flush(); err != nil {
					return "flush failed: " + err.Error()
				}
			}
			continue
		}
		if s.Kind == "create" {
			inflight = &s
			trigger = "create"
		}
		err := eng.ExecStmt(s)
		inflight = nil
		trigger = "timer"
		if k, merr := m.Apply(s); merr != nil || k != model.OK {
			return fmt.Sprintf("case is not valid in the model (statement %d: %v %v)", i, k, merr)
		}
		if err != nil {
			return fmt.Sprintf("statement %d is valid but was refused: %v\n  %s", i, err, s)
		}
		if s.FlushAfter {
			if err := eng.Flush(); err != nil {
				return "flush failed: " + err.Error()
			}
		}
	}
	var crashImg string
	if c.End == "shutdown" {
		trigger = "shutdown"
		if err := eng.Shutdown(); err != nil {
			return "shutdown failed: " + err.Error()
		}
		eng.Sess.RelationService = nil
	} else {
		// process death; keep the image to attack the flush that ends recovery
		crashImg = filepath.Join(imgRoot, "crash")
		if err := mk.CopyDataDir(dir, crashImg); err != nil {
			return "image copy failed: " + err.Error()
		}
		eng.Crash(true)
	}
	alive = false
	storage.VerifHook = nil
	if hookErr != nil {
		return "hook trouble: " + hookErr.Error()
	}

	if crashImg != "" && c.RecoveryFlush {
		// recover the crashed image with the recorder armed: InitStorage ends with a flush
		trigger = "recovery"
		final := m.Clone()
		storage.VerifHook = hook(filepath.Join(crashImg, "data", DBName, "tbl"), filepath.Join(crashImg, "data", DBName, "wal"), func() *model.DB { return final })
		e2, err := mk.Start(crashImg)
		storage.VerifHook = nil
		os.Chdir(dir)
		if err != nil {
			return "recovery of the between-statement crash image failed: " + err.Error()
		}
		e2.Crash(false)
		if hookErr != nil {
			return "hook trouble: " + hookErr.Error()
		}
	}

	// ---- compose and recover torn states of every recorded flush
	var labels []string
	nontrivial := false
	composed, excluded, inRegionRun, inRegionFail := 0, 0, 0, 0
	// in-region states recovered in a child process, per case (statistics only)
	regionBudget := 2
	if Cfg.Tier == "thorough" {
		regionBudget = 6
	}
	for fi, f := range recs {
		if c.OnlyFlush > 0 && fi+1 != c.OnlyFlush {
			continue
		}
		D := f.dirty()
		fresh := f.hasFresh()
		labels = append(labels, "flush-"+f.trigger)
		if len(D) > 256 {
			labels = append(labels, "flush-of-more-than-256-pages")
		}
		if len(D) > 0 {
			if fresh {
				labels = append(labels, "flush-with-fresh-pages")
			} else {
				labels = append(labels, "flush-without-fresh-pages")
			}
		}
		// pages written before / after the header in the real run; the code under
		// test writes the header last, so normally every page is "before"
		before, after := D, []uint64(nil)
		if f.hdrAt >= 0 && f.hdrAt < len(f.order) {
			isBefore := map[uint64]bool{}
			for _, o := range f.order[:f.hdrAt] {
				isBefore[o] = true
			}
			before, after = nil, nil
			for _, o := range D {
				if isBefore[o] {
					before = append(before, o)
				} else {
					after = append(after, o)
				}
			}
			labels = append(labels, "header-not-last")
		}
		subs := subsets(before, c.SubsetSeed+uint64(fi))
		nOld := len(subs)
		if len(after) > 0 {
			// header already new, all "before" pages written, any subset of the rest
			for _, s2 := range subsets(after, c.SubsetSeed+uint64(fi)+7) {
				subs = append(subs, append(append([]uint64{}, before...), s2...))
			}
		} else if f.hdrAt >= 0 {
			subs = append(subs, D) // the completed flush: all pages, new header
		}
		if c.OnlySubset != nil {
			subs = [][]uint64{c.OnlySubset}
			nOld = 1
		}
		if c.InRegion {
			regionBudget = 1 << 30
		}
		for si, S := range subs {
			newHdr := si >= nOld
			inRegion := fresh && len(S) > 0 && len(S) < len(D)
			img := filepath.Join(imgRoot, fmt.Sprintf("f%d-s%d", fi, si))
			what := fmt.Sprintf("flush #%d (%s, dirty pages %v, allocation frontier %d) torn after writing pages %v, new header written: %v", fi+1, f.trigger, D, f.frontier(), S, newHdr)
			if inRegion {
				excluded++
				if regionBudget <= 0 {
					continue
				}
				regionBudget--
				if err := f.compose(img, S, newHdr); err != nil {
					return "compose failed: " + err.Error()
				}
				msg, died := recoverCompareChild(img, f)
				os.RemoveAll(img)
				inRegionRun++
				if msg != "" || died {
					inRegionFail++
					wc := c
					wc.OnlyFlush, wc.OnlySubset, wc.InRegion = fi+1, S, true
					wb, _ := json.Marshal(wc)
					st.HitKnown(c04KnownID, what+": "+msg, wb)
					if p := os.Getenv("VERIF_DUMP_KNOWN"); p != "" {
						if _, err := os.Stat(p); err != nil && len(wb) < 3000 {
							os.WriteFile(p, wb, 0644)
						}
					}
				}
				continue
			}
			if err := f.compose(img, S, newHdr); err != nil {
				return "compose failed: " + err.Error()
			}
			composed++
			msg := recoverCompareThen(img, f, si == 0 || si == len(subs)-1 || si == nOld-1 || (uint64(si)+c.SubsetSeed)%3 == 0)
			os.Chdir(dir)
			os.RemoveAll(img)
			if msg != "" {
				return what + ": " + msg
			}
			if len(D) >= 2 && len(S) > 0 && len(S) < len(D) {
				nontrivial = true
			}
		}
	}
	st.AddExtra("flushes_attacked", len(recs))
	st.AddExtra("torn_states_recovered", composed)
	st.AddExtra("in_region_states_run_in_child", inRegionRun)
	st.AddExtra("in_region_states_failing", inRegionFail)
	st.Exclude(excluded)
	if nontrivial {
		labels = append(labels, "proper-subset-outside-region")
	}
	st.Record(b, nontrivial, labels...)
	return ""
}

func TestC04(t *testing.T) {
	st := vlib.NewStats("C04")
	defer st.Write(Cfg, "C04")
	sysReplay := false
	if Cfg.Replay != "" {
		if raw, err := vlib.LoadReplay(Cfg.Replay); err == nil && bytes.Contains(raw, []byte(`"sys_setup"`)) {
			sysReplay = true
		}
	}
	if !sysReplay {
		vlib.DriveWith(t, vlib.Prop[c04Case]{ID: "C04", Gen: c04Gen, Run: c04Run}, Cfg, st)
	}
	if st.Failed() || (Cfg.Replay != "" && !sysReplay) {
		return
	}
	// process death at every physical write of a flush (c04sys_test.go)
	scfg := Cfg
	scfg.Checks = 1
	if Cfg.Tier == "thorough" {
		scfg.Checks = 8
	}
	vlib.DriveWith(t, vlib.Prop[c04SysCase]{ID: "C04", Gen: c04SysGen, Run: c04SysRun, Amend: func(c c04SysCase) c04SysCase {
		c.KillAt = c04SysKill
		return c
	}}, scfg, st)
}
