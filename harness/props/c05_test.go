package props

// C05 - single-table SELECT returns what its clauses mean.

import (
	"encoding/json"
	"fmt"
	"path/filepath"
	"strings"
	"testing"

	"pgregory.net/rapid"

	"verif/harness/gen"
	"verif/harness/mk"
	"verif/harness/model"
	"verif/harness/ref"
	"verif/vlib"
)

type c05Query struct {
	Q   gen.Select `json:"q"`
	SQL string     `json:"sql"`
}

type c05Case struct {
	Create  model.Stmt   `json:"create"`
	Inserts []model.Stmt `json:"inserts"`
	Queries []c05Query   `json:"queries"`
}

func c05Gen(rt *rapid.T) c05Case {
	c := c05Case{}
	c.Create, c.Inserts = gen.SmallTable(rt, "t0", 2, 5, 40)
	db := model.NewDB()
	gen.MustApply(db, c.Create)
	for _, s := range c.Inserts {
		gen.MustApply(db, s)
	}
	n := rapid.IntRange(1, 10).Draw(rt, "nqueries")
	for i := 0; i < n; i++ {
		q := gen.SingleTableSelect(rt, db.Tables["t0"])
		c.Queries = append(c.Queries, c05Query{Q: q, SQL: gen.RenderSelect(gen.NewStyle(rt), q)})
		// now and then the same query again with one string literal in a different letter
		// case or spacing: two different queries whose texts differ only inside a literal
		if v, ok := c05LiteralVariant(q); ok && rapid.IntRange(0, 2).Draw(rt, "variant") == 0 {
			c.Queries[len(c.Queries)-1].SQL = gen.RenderSelect(gen.Plain(), q)
			c.Queries = append(c.Queries, c05Query{Q: v, SQL: gen.RenderSelect(gen.Plain(), v)})
		}
	}
	return c
}

// c05LiteralVariant returns a copy of q in which the first string literal of the
// WHERE clause that contains a letter or a blank is changed in letter case or spacing.
func c05LiteralVariant(q gen.Select) (gen.Select, bool) {
	if q.Where == nil {
		return q, false
	}
	b, _ := json.Marshal(q)
	var v gen.Select
	json.Unmarshal(b, &v)
	for i := range v.Where.Or {
		for j := range v.Where.Or[i] {
			for _, o := range []*model.Operand{&v.Where.Or[i][j].L, &v.Where.Or[i][j].R} {
				if o.Lit == nil || o.Lit.T != "s" {
					continue
				}
				alt := strings.ToUpper(o.Lit.S)
				if alt == o.Lit.S {
					alt = strings.ToLower(o.Lit.S)
				}
				if alt == o.Lit.S {
					alt = strings.ReplaceAll(o.Lit.S, " ", "  ")
				}
				if alt != o.Lit.S {
					nv := model.Str(alt)
					o.Lit = &nv
					return v, true
				}
			}
		}
	}
	return q, false
}

func keyOf(row []interface{}, idx []int) string {
	s := ""
	for _, i := range idx {
		s += model.GoString(row[i]) + "\x00"
	}
	return s
}

// compareSelect checks an engine result against the reference output. Ordered
// results are validated by a predicate that accepts every order of tied rows.
func compareSelect(res *mk.Result, out *ref.Output, cmpVal func(want, got interface{}) bool) string {
	if len(res.Header) != len(out.Header) {
		return fmt.Sprintf("%d columns returned, %d expected (%v vs %v)", len(res.Header), len(out.Header), res.Header, out.Header)
	}
	for i := range out.Header {
		if res.Header[i] != out.Header[i] && !(i < len(out.HeaderFree) && out.HeaderFree[i]) {
			return fmt.Sprintf("column %d is named %q, expected %q", i, res.Header[i], out.Header[i])
		}
	}
	if len(res.Rows) != len(out.Rows) {
		return fmt.Sprintf("%d rows returned, %d expected (of %d before OFFSET %d / LIMIT %d)", len(res.Rows), len(out.Rows), len(out.Full), out.Offset, out.Limit)
	}
	eq := func(a, b []interface{}) bool {
		if len(a) != len(b) {
			return false
		}
		for i := range a {
			if !cmpVal(a[i], b[i]) {
				return false
			}
		}
		return true
	}
	if len(out.KeyIdx) == 0 {
		for i := range out.Rows {
			if !eq(out.Rows[i], res.Rows[i]) {
				return fmt.Sprintf("row %d is %s, expected %s", i, model.RowString(res.Rows[i]), model.RowString(out.Rows[i]))
			}
		}
		return ""
	}
	// (1) the sort-key tuples of the window equal the reference's
	for i := range out.Rows {
		if keyOf(res.Rows[i], out.KeyIdx) != keyOf(out.Rows[i], out.KeyIdx) {
			return fmt.Sprintf("row %d has sort key %s, expected %s", i, keyOf(res.Rows[i], out.KeyIdx), keyOf(out.Rows[i], out.KeyIdx))
		}
	}
	// (2) per key class: the returned rows are a sub-multiset of the class
	classes := map[string][][]interface{}{}
	for _, r := range out.Full {
		k := keyOf(r, out.KeyIdx)
		classes[k] = append(classes[k], r)
	}
	for i, r := range res.Rows {
		k := keyOf(r, out.KeyIdx)
		pool := classes[k]
		found := -1
		for j, cand := range pool {
			if eq(cand, r) {
				found = j
				break
			}
		}
		if found < 0 {
			return fmt.Sprintf("row %d %s is not among the (remaining) rows with that sort key", i, model.RowString(r))
		}
		classes[k] = append(pool[:found:found], pool[found+1:]...)
	}
	return ""
}

func exactVal(want, got interface{}) bool { return model.GoEqual(want, got) }

func c05Nontrivial(q gen.Select, out *ref.Output, total int) (bool, []string) {
	var labels []string
	nt := false
	if q.Where != nil {
		n, both := 0, false
		for _, conj := range q.Where.Or {
			n += len(conj)
			if len(conj) >= 2 && len(q.Where.Or) >= 2 {
				both = true
			}
		}
		if both && n >= 3 {
			nt = true
			labels = append(labels, "where-and+or")
		}
	}
	if len(q.OrderBy) >= 2 && len(out.Full) >= 2 {
		tie := false
		for i := 1; i < len(out.Full); i++ {
			if keyOf(out.Full[i], out.KeyIdx[:1]) == keyOf(out.Full[i-1], out.KeyIdx[:1]) {
				tie = true
			}
		}
		if tie {
			nt = true
			labels = append(labels, "order-multikey-with-ties")
		}
	}
	if (q.Limit != nil || q.Offset != nil) && len(out.Rows) > 0 && len(out.Rows) < len(out.Full) {
		nt = true
		labels = append(labels, "limit-offset-cuts")
	}
	if len(out.Full) == 0 || (q.Where != nil && len(out.Full) == total) {
		nt = false // the filter kept nothing or everything
	}
	if len(q.OrderBy) > 0 {
		labels = append(labels, "order-by")
	}
	return nt, labels
}

func c05Run(c c05Case, st *vlib.Stats) string {
	eng, err := OpenFresh("c05")
	if err != nil {
		return "setup failed: " + err.Error()
	}
	defer eng.Crash(true)
	m := model.NewDB()
	for _, s := range append([]model.Stmt{c.Create}, c.Inserts...) {
		if k, merr := m.Apply(s); merr != nil || k != model.OK {
			return fmt.Sprintf("case invalid in the model: %v %v", k, merr)
		}
		if err := eng.ExecStmt(s); err != nil {
			return fmt.Sprintf("setup statement refused: %v (%s)", err, s)
		}
	}
	for qi, cq := range c.Queries {
		out, rerr := ref.Eval(m, cq.Q)
		if rerr != nil {
			return fmt.Sprintf("harness: generated query %d is not valid for the reference: %v (%s)", qi, rerr, cq.SQL)
		}
		nt, labels := c05Nontrivial(cq.Q, out, len(m.Tables["t0"].Rows))
		b, _ := json.Marshal(struct {
			T model.Stmt   `json:"t"`
			I []model.Stmt `json:"i"`
			Q gen.Select   `json:"q"`
		}{c.Create, c.Inserts, cq.Q})
		st.RecordKey(string(b), nt, func() []byte {
			sb, _ := json.Marshal(map[string]interface{}{"table": c.Create.SQL, "rows": len(m.Tables["t0"].Rows), "query": cq.SQL})
			return sb
		}, labels...)
		res, err := eng.Query(cq.SQL)
		if err != nil {
			return fmt.Sprintf("query %d is valid but failed: %v\n  %q", qi, err, cq.SQL)
		}
		if msg := compareSelect(res, out, exactVal); msg != "" {
			return fmt.Sprintf("query %d: %s\n  %q", qi, msg, cq.SQL)
		}
		// the console's route: Session.ExecQuery prints the result. What it prints must be the
		// table of the result computed above (same statement, same state, same process).
		printed, err := eng.ExecCapture(cq.SQL, filepath.Join(WorkDir, "c05-stdout.txt"))
		if err != nil {
			return fmt.Sprintf("query %d is valid but Session.ExecQuery failed: %v\n  %q", qi, err, cq.SQL)
		}
		if want := mk.FormatTable(res); !strings.HasSuffix(printed, want) {
			tail := printed
			if len(tail) > len(want)+200 {
				tail = tail[len(tail)-len(want)-200:]
			}
			return fmt.Sprintf("query %d: Session.ExecQuery printed a different result than evaluating the statement gives\n  %q\n  printed (tail): %q\n  expected table: %q", qi, cq.SQL, tail, want)
		}
	}
	return ""
}

func TestC05(t *testing.T) {
	vlib.Drive(t, vlib.Prop[c05Case]{ID: "C05", Gen: c05Gen, Run: c05Run})
}
