package props

// C06 - JOIN results equal the relational definition.

import (
	"encoding/json"
	"errors"
	"fmt"
	"sort"
	"strings"
	"testing"

	"pgregory.net/rapid"

	"verif/harness/gen"
	"verif/harness/mk"
	"verif/harness/model"
	"verif/harness/ref"
	"verif/vlib"
)

type c06Query struct {
	Q   gen.Select `json:"q"`
	SQL string     `json:"sql"`
}

type c06Case struct {
	Setup   []model.Stmt `json:"setup"`
	Queries []c06Query   `json:"queries"`
	Catalog bool         `json:"catalog,omitempty"` // sys_schema takes part in the joins
}

var c06CatalogCreate = model.Stmt{Kind: "create", Table: "sys_schema", Cols: []model.Col{
	{Name: "table_name", Type: model.TVarchar, Len: 255}, {Name: "field_name", Type: model.TVarchar, Len: 255},
	{Name: "field_type", Type: model.TInt}, {Name: "field_length", Type: model.TInt}}}

func c06Gen(rt *rapid.T) c06Case {
	c := c06Case{Setup: gen.JoinTables(rt)}
	db := model.NewDB()
	for _, s := range c.Setup {
		gen.MustApply(db, s)
	}
	if rapid.IntRange(0, 3).Draw(rt, "catalog") == 0 {
		// the catalog table as a join participant (its rows are whatever the database says they
		// are: the runner snapshots them; here only the columns matter)
		gen.MustApply(db, c06CatalogCreate)
		c.Catalog = true
	}
	n := rapid.IntRange(1, 8).Draw(rt, "nqueries")
	for i := 0; i < n; i++ {
		q := gen.JoinQuery(rt, db, rapid.IntRange(0, 5).Draw(rt, "misaddress") == 0)
		c.Queries = append(c.Queries, c06Query{Q: q, SQL: gen.RenderSelect(gen.NewStyle(rt), q)})
	}
	return c
}

func multiset(rows [][]interface{}) []string {
	var out []string
	for _, r := range rows {
		out = append(out, model.RowString(r))
	}
	sort.Strings(out)
	return out
}

func compareMultiset(res *mk.Result, out *ref.Output) string {
	if len(res.Header) != len(out.Header) {
		return fmt.Sprintf("%d columns returned, %d expected (%v vs %v)", len(res.Header), len(out.Header), res.Header, out.Header)
	}
	for i := range out.Header {
		if res.Header[i] != out.Header[i] && !(i < len(out.HeaderFree) && out.HeaderFree[i]) {
			return fmt.Sprintf("column %d is named %q, expected %q", i, res.Header[i], out.Header[i])
		}
	}
	a, b := multiset(res.Rows), multiset(out.Rows)
	if strings.Join(a, "\n") != strings.Join(b, "\n") {
		return fmt.Sprintf("result differs as a multiset: %d rows returned, %d expected\n  returned: %v\n  expected: %v", len(a), len(b), trunc(a), trunc(b))
	}
	return ""
}

func trunc(s []string) []string {
	if len(s) > 30 {
		return append(append([]string{}, s[:30]...), "...")
	}
	return s
}

func c06Labels(q gen.Select, m *model.DB, out *ref.Output) (bool, []string) {
	var labels []string
	nt := false
	if len(q.Joins) >= 2 {
		nt = true
		labels = append(labels, "two-join-chain")
	}
	seen := map[string]int{q.From.Name: 1}
	for _, j := range q.Joins {
		seen[j.Table.Name]++
		labels = append(labels, "join-"+j.Type)
	}
	for _, n := range seen {
		if n >= 2 {
			nt = true
			labels = append(labels, "self-join")
		}
	}
	if out != nil {
		padded, dup := false, false
		for _, r := range out.Full {
			for _, v := range r {
				if v == nil {
					padded = true
				}
			}
		}
		for _, name := range []string{q.From.Name, q.Joins[0].Table.Name} {
			cnt := map[interface{}]int{}
			for _, r := range m.Tables[name].Rows {
				cnt[r.Vals[0]]++
			}
			d := false
			for _, c := range cnt {
				if c > 1 {
					d = true
				}
			}
			dup = dup || d
		}
		if padded {
			labels = append(labels, "null-padded-row")
		}
		if padded && dup {
			nt = true
		}
	}
	return nt, labels
}

func c06Run(c c06Case, st *vlib.Stats) string {
	eng, err := OpenFresh("c06")
	if err != nil {
		return "setup failed: " + err.Error()
	}
	defer eng.Crash(true)
	m := model.NewDB()
	for _, s := range c.Setup {
		if k, merr := m.Apply(s); merr != nil || k != model.OK {
			return fmt.Sprintf("case invalid in the model: %v %v", k, merr)
		}
		if err := eng.ExecStmt(s); err != nil {
			return fmt.Sprintf("setup statement refused: %v (%s)", err, s)
		}
	}
	if c.Catalog {
		// sys_schema as the database reports it becomes a table of the reference model
		res, err := eng.Query("SELECT * FROM sys_schema")
		if err != nil {
			return "SELECT * FROM sys_schema failed: " + err.Error()
		}
		if k, merr := m.Apply(c06CatalogCreate); merr != nil || k != model.OK {
			return fmt.Sprintf("harness: cannot add the catalog table to the model: %v %v", k, merr)
		}
		for _, r := range res.Rows {
			ins := model.Stmt{Kind: "insert", Table: "sys_schema", Rows: [][]model.Val{nil}}
			for _, v := range r {
				ins.Rows[0] = append(ins.Rows[0], model.FromGo(v))
			}
			if k, merr := m.Apply(ins); merr != nil || k != model.OK {
				return fmt.Sprintf("harness: cannot copy a catalog row into the model: %v %v", k, merr)
			}
		}
	}
	for qi, cq := range c.Queries {
		out, rerr := ref.Eval(m, cq.Q)
		nt, labels := c06Labels(cq.Q, m, out)
		if rerr != nil {
			labels = append(labels, "must-be-rejected")
			nt = true
		}
		b, _ := json.Marshal(struct {
			S []model.Stmt `json:"s"`
			Q gen.Select   `json:"q"`
		}{c.Setup, cq.Q})
		st.RecordKey(string(b), nt, func() []byte {
			var tables []string
			for _, s := range c.Setup {
				tables = append(tables, s.SQL)
			}
			sb, _ := json.Marshal(map[string]interface{}{"setup": tables, "query": cq.SQL})
			return sb
		}, labels...)
		res, err := eng.Query(cq.SQL)
		if rerr != nil {
			if !(errors.Is(rerr, ref.ErrAmbiguous) || errors.Is(rerr, ref.ErrNotFound)) {
				return fmt.Sprintf("harness: query %d is outside the reference's domain: %v (%s)", qi, rerr, cq.SQL)
			}
			if err == nil {
				return fmt.Sprintf("query %d must be rejected (%v) but returned %d rows\n  %q", qi, rerr, len(res.Rows), cq.SQL)
			}
			if mk.IsPanic(err) {
				return fmt.Sprintf("query %d must be rejected with an error, it panicked: %v\n  %q", qi, err, cq.SQL)
			}
			continue
		}
		if err != nil {
			return fmt.Sprintf("query %d is valid but failed: %v\n  %q", qi, err, cq.SQL)
		}
		if msg := compareMultiset(res, out); msg != "" {
			return fmt.Sprintf("query %d: %s\n  %q", qi, msg, cq.SQL)
		}
	}
	return ""
}

func TestC06(t *testing.T) {
	vlib.Drive(t, vlib.Prop[c06Case]{ID: "C06", Gen: c06Gen, Run: c06Run})
}
