package props

// C16 - query results do not depend on the page-cache size.

import (
	"encoding/json"
	"errors"
	"fmt"
	"testing"
	"time"

	"github.com/mk6i/mkdb/storage"
	"pgregory.net/rapid"

	"verif/harness/gen"
	"verif/harness/mk"
	"verif/harness/model"
	"verif/vlib"
)

type c16Case struct {
	Stmts []model.Stmt `json:"stmts"`
	Cache int          `json:"cache"`
	Deep  bool         `json:"deep,omitempty"`
	// Rewrite: whole-table UPDATEs of a table filling half the cache (rows are not
	// spread one per leaf, so the per-row bound of the ordinary cases is too strict here)
	Rewrite bool `json:"rewrite,omitempty"`
}

func c16Gen(rt *rapid.T) c16Case {
	c := c16Case{Cache: rapid.OneOf(rapid.IntRange(12, 20), rapid.IntRange(12, 40), rapid.IntRange(8, 11)).Draw(rt, "cache")}
	maxRows := 4 * (c.Cache - 6) // a full-table UPDATE/DELETE must fit the cache: <= rows/4 leaves + path
	cfg := gen.HistCfg{MinStmts: 25, MaxStmts: 90, MaxTables: 6, MaxCols: 3, Direct: true,
		RowCounts: []int{2, 4, 8, 9, 10, 12, 17}, Small: true}
	if c.Cache < 12 {
		// a cache of a few pages more than one statement needs: what is resident is decided by the last
		// handful of lookups, and the catalog of a few tables alone is as large as the cache
		cfg.MaxTables, cfg.RowCounts = 9, []int{1, 1, 2, 4, 8, 9}
	}
	if rapid.IntRange(0, 2).Draw(rt, "bigcatalog") == 0 {
		// a catalog that alone is larger than the cache: many tables with many columns
		c.Cache = rapid.IntRange(12, 16).Draw(rt, "cache_small")
		maxRows = 4 * (c.Cache - 6)
		cfg.MaxTables, cfg.MaxCols, cfg.MinStmts, cfg.NoWide = 14, 5, 40, true
	}
	db := model.NewDB()
	if rapid.IntRange(0, 19).Draw(rt, "rewrite") == 5 {
		// one table whose leaves fill a good half of the cache, rewritten completely two or three
		// times with a flush in between: the same pages are dirtied in consecutive flush intervals
		// (each time the dirty set fits the cache with room to spare)
		c.Cache = rapid.IntRange(16, 40).Draw(rt, "cache_rw")
		add := func(s model.Stmt) {
			s.SQL = gen.RenderStmt(gen.Plain(), s)
			gen.MustApply(db, s)
			c.Stmts = append(c.Stmts, s)
		}
		add(model.Stmt{Kind: "create", Table: "rw", Cols: []model.Col{{Name: "a", Type: model.TInt}, {Name: "s", Type: model.TVarchar, Len: 8}}})
		// pass 1 rewrites the rows of d1 leaves (a little under half the cache), pass 2 the same
		// rows and those of a few more leaves: every dirty set fits the cache with room to spare
		d1 := (c.Cache-4)/2 - rapid.IntRange(0, 2).Draw(rt, "rw_less")
		extra := rapid.IntRange(5, 8).Draw(rt, "rw_extra")
		rows := 4 * (d1 + extra + 3)
		per := 4 * (c.Cache - 8)
		for n := 0; n < rows; {
			ins := model.Stmt{Kind: "insert", Table: "rw"}
			for i := 0; i < per && n < rows; i++ {
				ins.Rows = append(ins.Rows, []model.Val{model.Int(int64(n)), model.Str("v")})
				n++
			}
			add(ins)
		}
		for k, leaves := range []int{d1, d1 + extra, d1, d1 + extra} {
			lit := model.Int(int64(rows - 4*leaves))
			add(model.Stmt{Kind: "update", Table: "rw", Set: []model.Assign{{Col: "s", Val: model.Str(fmt.Sprintf("p%d", k))}},
				Where: &model.Cond{Or: [][]model.Cmp{{{L: model.Operand{Col: "a"}, Op: ">=", R: model.Operand{Lit: &lit}}}}}})
		}
		c.Rewrite = true
		return c
	}
	if rapid.IntRange(0, 24).Draw(rt, "deep") == 9 {
		// one table grown (in statements that fit the cache) to the size where
		// the tree gets a third level, then single-row work at its right edge
		// mixed with reads that push the fresh upper-level pages out of the cache
		c.Cache = rapid.IntRange(16, 40).Draw(rt, "cache_deep")
		per := 4 * (c.Cache - 8)
		add := func(s model.Stmt) {
			s.SQL = gen.RenderStmt(gen.Plain(), s)
			gen.MustApply(db, s)
			c.Stmts = append(c.Stmts, s)
		}
		add(model.Stmt{Kind: "create", Table: "big", Cols: []model.Col{{Name: "a", Type: model.TInt}, {Name: "s", Type: model.TVarchar, Len: 8}}})
		next := 0
		ins := func(k int) {
			s := model.Stmt{Kind: "insert", Table: "big"}
			for i := 0; i < k; i++ {
				s.Rows = append(s.Rows, []model.Val{model.Int(int64(next)), model.Str("v")})
				next++
			}
			add(s)
		}
		target := rapid.SampledFrom([]int{1150, 1158, 1162, 1162, 1740, 1746}).Draw(rt, "deep_rows")
		for next < target {
			k := per
			if target-next < k {
				k = target - next
			}
			ins(k)
		}
		eq := func(v int64) *model.Cond {
			lit := model.Int(v)
			return &model.Cond{Or: [][]model.Cmp{{{L: model.Operand{Col: "a"}, Op: "=", R: model.Operand{Lit: &lit}}}}}
		}
		for k := rapid.IntRange(12, 40).Draw(rt, "deep_ops"); k > 0; k-- {
			switch rapid.IntRange(0, 5).Draw(rt, "deep_op") {
			case 0, 1, 2:
				ins(1)
			case 3:
				ins(rapid.IntRange(2, 4).Draw(rt, "deep_ins"))
			case 4:
				add(model.Stmt{Kind: "delete", Table: "big", Where: eq(int64(next - 1 - rapid.IntRange(0, 600).Draw(rt, "deep_del")))})
			case 5:
				add(model.Stmt{Kind: "update", Table: "big", Set: []model.Assign{{Col: "s", Val: model.Str("u")}}, Where: eq(int64(next - 1 - rapid.IntRange(0, 600).Draw(rt, "deep_upd")))})
			}
		}
		c.Deep = true
		return c
	}
	n := rapid.IntRange(cfg.MinStmts, cfg.MaxStmts).Draw(rt, "nstmts")
	rejected := 0
	for len(c.Stmts) < n {
		s, ok := gen.NextStmt(rt, cfg, db)
		if !ok {
			continue
		}
		// the property's precondition: the statement's dirty set fits the cache.
		// An n-row INSERT dirties at most n/4 leaves plus a path, an UPDATE or DELETE at
		// most one leaf per row it touches. Tables themselves may grow far beyond the cache.
		switch s.Kind {
		case "insert":
			if len(s.Rows) > maxRows {
				continue
			}
		case "update", "delete":
			if ops, err := db.RowOps(s); err != nil || ops > c.Cache-6 {
				rejected++
				if rejected < 400 {
					continue
				}
				// nothing small enough comes up any more: fall back to an insert-only tail
				cfg.NoMutations = true
				continue
			}
		}
		gen.MustApply(db, s)
		c.Stmts = append(c.Stmts, s)
	}
	return c
}

type c16Snapshot struct {
	rows map[string][][]interface{}
	ids  map[string][]uint32
}

func c16Snap(eng *mk.Engine, m *model.DB) (*c16Snapshot, string) {
	s := &c16Snapshot{rows: map[string][][]interface{}{}, ids: map[string][]uint32{}}
	for _, name := range append(m.TableNames(), "sys_schema", "sys_pages") {
		res, err := eng.Query("SELECT * FROM " + name)
		if err != nil {
			return nil, fmt.Sprintf("SELECT * FROM %s failed: %v", name, err)
		}
		s.rows[name], s.ids[name] = res.Rows, res.IDs
	}
	return s, ""
}

func c16Run(c c16Case, st *vlib.Stats) string {
	b, _ := json.Marshal(c)
	defer func() { storage.VerifHook = nil }()
	// ---- run A: default cache
	engA, err := OpenFresh("c16a")
	if err != nil {
		return "setup failed: " + err.Error()
	}
	m := model.NewDB()
	outcomes := make([]error, len(c.Stmts))
	for i, s := range c.Stmts {
		if k, merr := m.Apply(s); merr != nil || k != model.OK {
			engA.Crash(true)
			return fmt.Sprintf("case invalid in the model (statement %d: %v %v)", i, k, merr)
		}
		outcomes[i] = engA.ExecStmt(s)
		if outcomes[i] != nil {
			engA.Crash(true)
			return fmt.Sprintf("default cache: statement %d is valid but was refused: %v", i, outcomes[i])
		}
		engA.Flush()
	}
	snapA, msg := c16Snap(engA, m)
	if msg == "" {
		msg = CompareAll(engA, m, nil)
	}
	engA.Crash(true)
	if msg != "" {
		return "default cache: " + msg
	}
	// ---- run B: small cache, a flush (timer tick) after every statement
	engB, err := OpenFresh("c16b")
	if err != nil {
		return "setup failed: " + err.Error()
	}
	defer engB.Crash(true)
	engB.RS().VerifSetCacheSize(c.Cache)
	reloads := 0
	reading := false
	storage.VerifHook = func(point string, arg uint64) {
		if point == "cache.set" && reading {
			reloads++
		}
	}
	mB := model.NewDB()
	for i, s := range c.Stmts {
		mB.Apply(s)
		err := ExecWatched(engB, s, 30*time.Second, st, "C16", b, fmt.Sprintf("cache of %d pages: statement %d (which returned at once with the default cache)", c.Cache, i))
		if err != nil {
			if errors.Is(err, storage.ErrLRUCacheFull) {
				return fmt.Sprintf("cache of %d pages: statement %d hit 'cache full' although its dirty set fits (%d dirty pages resident): %s", c.Cache, i, len(engB.RS().VerifDirtyOffsets()), s)
			}
			return fmt.Sprintf("cache of %d pages: statement %d succeeded with the default cache but failed here: %v\n  %s", c.Cache, i, err, s)
		}
		if n := engB.RS().VerifCacheLen(); n > c.Cache {
			return fmt.Sprintf("cache of %d pages holds %d pages after statement %d", c.Cache, n, i)
		}
		if err := engB.Flush(); err != nil {
			return fmt.Sprintf("flush after statement %d failed: %v", i, err)
		}
		if d := engB.RS().VerifDirtyOffsets(); len(d) != 0 {
			return fmt.Sprintf("dirty pages %v remain after a flush", d)
		}
		if i%5 == 4 {
			reading = true
			msg := CompareTable(engB, mB.Tables[s.Table], nil)
			reading = false
			if msg != "" {
				return fmt.Sprintf("cache of %d pages, after statement %d: %s", c.Cache, i, msg)
			}
		}
	}
	reading = true
	snapB, msg := c16Snap(engB, mB)
	reading = false
	if msg != "" {
		return fmt.Sprintf("cache of %d pages: %s", c.Cache, msg)
	}
	for name, rowsA := range snapA.rows {
		rowsB := snapB.rows[name]
		if len(rowsA) != len(rowsB) {
			return fmt.Sprintf("table %s has %d rows with the default cache and %d with a cache of %d pages", name, len(rowsA), len(rowsB), c.Cache)
		}
		for i := range rowsA {
			if !rowEqual(rowsA[i], rowsB[i]) || snapA.ids[name][i] != snapB.ids[name][i] {
				return fmt.Sprintf("table %s row %d: default cache (id %d) %s, cache of %d pages (id %d) %s", name, i,
					snapA.ids[name][i], model.RowString(rowsA[i]), c.Cache, snapB.ids[name][i], model.RowString(rowsB[i]))
			}
		}
	}
	// and once more after the store was closed and opened again (USE away and back): what the
	// small cache wrote - or failed to write - is now read from the file alone
	if err := Reopen(engB); err != nil {
		return fmt.Sprintf("cache of %d pages: switching databases failed: %v", c.Cache, err)
	}
	engB.RS().VerifSetCacheSize(c.Cache)
	reading = true
	msg = CompareAll(engB, mB, nil)
	reading = false
	if msg != "" {
		return fmt.Sprintf("cache of %d pages, after USE of another database and back: %s", c.Cache, msg)
	}
	_, _, nextFree, _ := engB.RS().VerifHeader()
	pages := int(nextFree / pageSize)
	labels := []string{fmt.Sprintf("db-pages-%dx-cache", pages/c.Cache)}
	if c.Deep {
		labels = append(labels, "tree-grows-third-level")
	}
	if c.Rewrite {
		labels = append(labels, "whole-table-rewrites")
	}
	if reloads > 0 {
		labels = append(labels, "pages-reloaded-from-disk")
	}
	st.AddExtra("pages_reloaded_during_reads", reloads)
	st.Record(b, reloads > 0 && pages >= 2*c.Cache, labels...)
	return ""
}

func TestC16(t *testing.T) {
	vlib.Drive(t, vlib.Prop[c16Case]{ID: "C16", Gen: c16Gen, Run: c16Run})
}
