// Package props holds one check per property (external harness).
package props

import (
	"fmt"
	"os"
	"path/filepath"
	"pgregory.net/rapid"
	"sort"
	"strings"
	"time"

	"verif/harness/mk"
	"verif/harness/model"
	"verif/vlib"
)

var (
	Cfg     vlib.Config
	WorkDir string // private scratch directory of this process
)

// CaseDir returns a fresh, empty directory for one case and makes it the
// current directory.
func CaseDir(name string) string {
	d := filepath.Join(WorkDir, name)
	if err := mk.FreshDir(d); err != nil {
		panic(err)
	}
	return d
}

const DBName = "d1"

// CreateDatabases creates the database the checks work in - and an idle one on
// either side of it (in creation order and in name order): databases that
// exist but are never written to. Start-up recovery walks over all of them.
func CreateDatabases(eng *mk.Engine) error {
	for _, n := range []string{"a_idle", DBName, "z_idle"} {
		if err := eng.Exec("CREATE DATABASE " + n); err != nil {
			return fmt.Errorf("CREATE DATABASE %s: %w", n, err)
		}
	}
	return nil
}

// Ages: counter values (last row id, next LSN) of databases that have been in use for a long time - just
// below 2^16, 2^24 / 2^32, 2^31 / 2^40 and in the upper half of the 32-bit id range.
var Ages = []struct {
	Key uint32
	LSN uint64
}{{65530, 65530}, {1<<24 - 6, 1<<32 - 4}, {1<<31 - 6, 1 << 40}, {1<<32 - 200000, 1 << 62},
	// (the same boundaries from further away: they are crossed in the middle of a history, not by its first CREATE TABLE)
	{65536 - 40, 65536 - 25}, {65536 - 150, 1<<32 - 90}, {1<<24 - 60, 1<<16 - 70}, {1<<31 - 90, 1<<32 - 30}}

// DrawAge draws 0 (a new database, seven times in seventeen) or the index+1 of an age.
func DrawAge(rt *rapid.T) int {
	return rapid.SampledFrom([]int{0, 0, 0, 0, 0, 0, 0, 1, 2, 3, 4, 5, 5, 6, 6, 7, 8}).Draw(rt, "age")
}

// AgeDatabase advances the counters of the selected database (hook VerifAdvanceCounters): everything the
// case does afterwards happens with row ids and LSNs of that magnitude.
func AgeDatabase(eng *mk.Engine, age int) error {
	if age <= 0 || age > len(Ages) {
		return nil
	}
	return eng.RS().VerifAdvanceCounters(Ages[age-1].Key, Ages[age-1].LSN)
}

// OpenFresh starts an engine in a fresh directory with one database selected.
func OpenFresh(name string) (*mk.Engine, error) {
	dir := CaseDir(name)
	eng, err := mk.Start(dir)
	if err != nil {
		return nil, err
	}
	if err := CreateDatabases(eng); err != nil {
		return nil, err
	}
	if err := eng.Exec("USE " + DBName); err != nil {
		return nil, fmt.Errorf("USE: %w", err)
	}
	return eng, nil
}

// Reopen closes and reopens the selected database the way a session does when
// the user switches away and back (USE other; USE this): the store is flushed
// and closed, the data file opened again WITHOUT the start-up log replay.
func Reopen(eng *mk.Engine) error {
	if err := eng.Exec("CREATE DATABASE d_other"); err != nil && !strings.Contains(err.Error(), "exists") {
		return fmt.Errorf("CREATE DATABASE d_other: %w", err)
	}
	if err := eng.Exec("USE d_other"); err != nil {
		return fmt.Errorf("USE d_other: %w", err)
	}
	if err := eng.Exec("USE " + DBName); err != nil {
		return fmt.Errorf("USE %s: %w", DBName, err)
	}
	return nil
}

// IDTracker checks what the properties say about row ids: a row keeps its id,
// ids strictly increase in insertion order within a table, and an id is never
// used for two different rows, database-wide, ever.
type IDTracker struct {
	bySeq map[int]uint32 // model row -> id
	owner map[uint32]string
}

func NewIDTracker() *IDTracker {
	return &IDTracker{bySeq: map[int]uint32{}, owner: map[uint32]string{}}
}

func (tr *IDTracker) Observe(table string, rows []*model.Row, ids []uint32) string {
	for i, r := range rows {
		id := ids[i]
		if i > 0 && ids[i-1] >= id {
			return fmt.Sprintf("table %s: row ids not strictly increasing in insertion order: %v", table, ids)
		}
		if old, ok := tr.bySeq[r.Seq]; ok && old != id {
			return fmt.Sprintf("table %s: row #%d changed its id from %d to %d", table, r.Seq, old, id)
		}
		tr.bySeq[r.Seq] = id
		who := fmt.Sprintf("%s#%d", table, r.Seq)
		if o, ok := tr.owner[id]; ok && o != who {
			return fmt.Sprintf("row id %d used twice: by %s and by %s", id, o, who)
		}
		tr.owner[id] = who
	}
	return ""
}

// CompareTable reads the table through the real SELECT * and compares it with
// the model as a sequence.
func CompareTable(eng *mk.Engine, t *model.Table, tr *IDTracker) string {
	res, err := eng.Query("SELECT * FROM " + quoteIfNeeded(t.Name))
	if err != nil {
		return fmt.Sprintf("SELECT * FROM %s failed: %v", t.Name, err)
	}
	if len(res.Header) != len(t.Cols) {
		return fmt.Sprintf("table %s: %d columns returned, %d declared", t.Name, len(res.Header), len(t.Cols))
	}
	for i, c := range t.Cols {
		if res.Header[i] != c.Name {
			return fmt.Sprintf("table %s: column %d is %q, declared %q", t.Name, i, res.Header[i], c.Name)
		}
	}
	if msg := compareRows(t.Name, t.Rows, res.Rows); msg != "" {
		return msg
	}
	if tr != nil {
		return tr.Observe(t.Name, t.Rows, res.IDs)
	}
	return ""
}

func compareRows(name string, want []*model.Row, got [][]interface{}) string {
	n := len(want)
	if len(got) < n {
		n = len(got)
	}
	for i := 0; i < n; i++ {
		if !rowEqual(want[i].Vals, got[i]) {
			return fmt.Sprintf("table %s: row %d differs: model %s, database %s (model has %d rows, database %d)\n%s",
				name, i, model.RowString(want[i].Vals), model.RowString(got[i]), len(want), len(got), diffSummary(want, got))
		}
	}
	if len(want) != len(got) {
		return fmt.Sprintf("table %s: model has %d rows, database returned %d\n%s", name, len(want), len(got), diffSummary(want, got))
	}
	return ""
}

func rowEqual(a, b []interface{}) bool {
	if len(a) != len(b) {
		return false
	}
	for i := range a {
		if !model.GoEqual(a[i], b[i]) {
			return false
		}
	}
	return true
}

func diffSummary(want []*model.Row, got [][]interface{}) string {
	var sb strings.Builder
	sb.WriteString("  model:    ")
	for i, r := range want {
		if i >= 12 {
			sb.WriteString(" ...")
			break
		}
		sb.WriteString(model.RowString(r.Vals) + " ")
	}
	sb.WriteString("\n  database: ")
	for i, r := range got {
		if i >= 12 {
			sb.WriteString(" ...")
			break
		}
		sb.WriteString(model.RowString(r) + " ")
	}
	return sb.String()
}

func quoteIfNeeded(name string) string { return name }

// CompareSchema checks that sys_schema reports every model table's declared
// columns, in order, and nothing for tables the model does not know.
func CompareSchema(eng *mk.Engine, db *model.DB) string {
	res, err := eng.Query("SELECT * FROM sys_schema")
	if err != nil {
		return fmt.Sprintf("SELECT * FROM sys_schema failed: %v", err)
	}
	got := map[string][]model.Col{}
	for _, r := range res.Rows {
		if len(r) != 4 {
			return fmt.Sprintf("sys_schema row has %d columns", len(r))
		}
		tn, _ := r[0].(string)
		fn, _ := r[1].(string)
		ft, _ := r[2].(int64)
		fl, _ := r[3].(int64)
		got[tn] = append(got[tn], model.Col{Name: fn, Type: model.ColType(ft), Len: int(fl)})
	}
	for name, t := range db.Tables {
		g := got[name]
		if len(g) != len(t.Cols) {
			return fmt.Sprintf("catalog lists %d columns for table %s, declared %d: %v vs %v", len(g), name, len(t.Cols), g, t.Cols)
		}
		for i, c := range t.Cols {
			want := c
			if c.Type != model.TVarchar {
				want.Len = 0
			}
			if g[i] != want {
				return fmt.Sprintf("catalog column %d of table %s is %+v, declared %+v", i, name, g[i], want)
			}
		}
	}
	for name := range got {
		if name == "sys_pages" || name == "sys_schema" {
			continue
		}
		if _, ok := db.Tables[name]; !ok {
			return fmt.Sprintf("catalog lists table %q which was never created", name)
		}
	}
	// sys_pages lists exactly the tables
	res, err = eng.Query("SELECT * FROM sys_pages")
	if err != nil {
		return fmt.Sprintf("SELECT * FROM sys_pages failed: %v", err)
	}
	var names []string
	for _, r := range res.Rows {
		n, _ := r[0].(string)
		if n != "sys_pages" && n != "sys_schema" {
			names = append(names, n)
		}
	}
	sort.Strings(names)
	want := db.SortedTableNames()
	if strings.Join(names, ",") != strings.Join(want, ",") {
		return fmt.Sprintf("sys_pages lists tables %v, created tables are %v", names, want)
	}
	return ""
}

// CompareAll compares every table and the catalog.
func CompareAll(eng *mk.Engine, db *model.DB, tr *IDTracker) string {
	for _, name := range db.TableNames() {
		if msg := CompareTable(eng, db.Tables[name], tr); msg != "" {
			return msg
		}
	}
	return CompareSchema(eng, db)
}

// SplitsAfter estimates the number of leaf splits a table has gone through
// after n rows were ever inserted (tombstones keep their cell): the right-most
// leaf splits when it reaches 9 cells and keeps 5.
func SplitsAfter(n int) int {
	if n < 9 {
		return 0
	}
	return 1 + (n-9)/4
}

// ExecWatched runs one statement under a watchdog. A statement that does not
// return cannot be abandoned (its goroutine holds locks and the store), so the
// case is reported as it is and this worker ends - no shrinking.
func ExecWatched(eng *mk.Engine, s model.Stmt, limit time.Duration, st *vlib.Stats, id string, caseJSON []byte, what string) error {
	done := make(chan error, 1)
	go func() { done <- eng.ExecStmt(s) }()
	select {
	case err := <-done:
		return err
	case <-time.After(limit):
		msg := fmt.Sprintf("%s did not return within %s: %s", what, limit, s)
		st.Fail(msg, caseJSON)
		st.Write(Cfg, id)
		vlib.Logf("FAIL %s: %s", id, msg)
		os.Exit(1)
	}
	return nil
}

func init() {
	_ = os.Getenv
}
