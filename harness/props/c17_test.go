package props

// C17 - databases are isolated and survive any USE / restart pattern.

import (
	"encoding/json"
	"fmt"
	"sort"
	"strings"
	"testing"

	"github.com/mk6i/mkdb/storage"
	"pgregory.net/rapid"

	"verif/harness/gen"
	"verif/harness/mk"
	"verif/harness/model"
	"verif/vlib"
)

type c17Op struct {
	Op      string      `json:"op"` // createdb | use | show | stmt | tick | restart
	Name    string      `json:"name,omitempty"`
	SQL     string      `json:"sql,omitempty"`
	Stmt    *model.Stmt `json:"stmt,omitempty"`
	Reverse bool        `json:"reverse,omitempty"`
	Crash   bool        `json:"crash,omitempty"`
}

type c17Case struct {
	Ops []c17Op `json:"ops"`
}

// (among them words that are keywords of the implementation language, not of SQL)
var c17Names = []string{"d1", "d2", "d3", "shop", "shop2", "d", "import", "type", "range", "default", "go"}

func c17Gen(rt *rapid.T) c17Case {
	dbs := map[string]*model.DB{}
	cur := ""
	var c c17Case
	n := rapid.IntRange(8, 60).Draw(rt, "nops")
	cfg := gen.HistCfg{MaxTables: 3, MaxCols: 3, Direct: true, RowCounts: []int{1, 1, 2, 3, 8, 9, 10}, Small: rapid.IntRange(0, 3).Draw(rt, "smallvals") > 0}
	if rapid.IntRange(0, 3).Draw(rt, "manytables") == 0 {
		cfg.MaxTables, cfg.MaxCols = 10, 2
		n = rapid.IntRange(40, 90).Draw(rt, "nops_many")
	}
	st := gen.NewStyle(rt)
	// database names are case-insensitive (one file pair per lower-cased name)
	spell := func(name string) string {
		switch rapid.IntRange(0, 5).Draw(rt, "namecase") {
		case 0:
			return strings.ToUpper(name)
		case 1:
			return strings.ToUpper(name[:1]) + name[1:]
		}
		return name
	}
	for len(c.Ops) < n {
		w := []string{"createdb", "use", "use", "show", "tick", "restart", "createlong"}
		if cur != "" {
			w = append(w, "stmt", "stmt", "stmt", "stmt", "stmt", "stmt", "stmt", "stmt")
		} else {
			w = append(w, "stmt")
		}
		if len(dbs) == 0 {
			w = []string{"createdb", "createdb", "use", "stmt", "show"}
		}
		switch rapid.SampledFrom(w).Draw(rt, "op") {
		case "createdb":
			name := rapid.SampledFrom(c17Names).Draw(rt, "dbname")
			c.Ops = append(c.Ops, c17Op{Op: "createdb", Name: name, SQL: st.KW("CREATE") + st.SP() + st.KW("DATABASE") + st.SP() + spell(name) + st.End()})
			if dbs[name] == nil {
				dbs[name] = model.NewDB()
			}
		case "createlong":
			// a database name longer than most limits: accepted or refused - but a refusal may leave nothing behind
			if len(dbs) == 0 {
				continue
			}
			name := "a_long_" + strings.Repeat(rapid.SampledFrom([]string{"x", "y"}).Draw(rt, "longch"), rapid.SampledFrom([]int{58, 59, 70, 120, 200, 248}).Draw(rt, "longlen"))
			c.Ops = append(c.Ops, c17Op{Op: "createlong", Name: name, SQL: st.KW("CREATE") + st.SP() + st.KW("DATABASE") + st.SP() + name + st.End()})
		case "use":
			names := append([]string{}, c17Names...)
			names = append(names, "nosuch", "sho", "d1x")
			if cur != "" {
				names = append(names, cur, cur) // re-selecting the current database
			}
			name := rapid.SampledFrom(names).Draw(rt, "usename")
			c.Ops = append(c.Ops, c17Op{Op: "use", Name: name, SQL: st.KW("USE") + st.SP() + spell(name) + st.End()})
			if dbs[name] != nil {
				cur = name
			}
		case "show":
			c.Ops = append(c.Ops, c17Op{Op: "show"})
		case "tick":
			c.Ops = append(c.Ops, c17Op{Op: "tick", Reverse: rapid.Bool().Draw(rt, "reverse")})
		case "restart":
			c.Ops = append(c.Ops, c17Op{Op: "restart", Crash: rapid.Bool().Draw(rt, "crash")})
			// after a restart the check selects every database in turn; the
			// last one (in name order) stays selected
			cur = ""
			for name := range dbs {
				if name > cur {
					cur = name
				}
			}
		case "stmt":
			if cur == "" {
				s := model.Stmt{Kind: "create", Table: "orphan", Cols: []model.Col{{Name: "a", Type: model.TInt}}}
				s.SQL = gen.RenderStmt(gen.Plain(), s)
				c.Ops = append(c.Ops, c17Op{Op: "stmt", Stmt: &s})
				continue
			}
			s, ok := gen.NextStmt(rt, cfg, dbs[cur])
			if !ok {
				continue
			}
			gen.MustApply(dbs[cur], s)
			c.Ops = append(c.Ops, c17Op{Op: "stmt", Stmt: &s})
		}
	}
	return c
}

func c17ShowDB() ([]string, error) {
	var names []string
	err := mk.Guard(func() error {
		rows, _, err := storage.ShowDB()
		if err != nil {
			return err
		}
		for _, r := range rows {
			names = append(names, fmt.Sprint(r.Vals[0]))
		}
		return nil
	})
	return names, err
}

func c17Run(c c17Case, st *vlib.Stats) string {
	b, _ := json.Marshal(c)
	dir := CaseDir("c17")
	eng, err := mk.Start(dir)
	if err != nil {
		return "setup failed: " + err.Error()
	}
	defer func() {
		if eng != nil {
			eng.Crash(true)
		}
	}()
	dbs := map[string]*model.DB{}
	trs := map[string]*IDTracker{}
	cur := ""
	withData, switches, ticksAfterSwitch, restarts, reuse := map[string]bool{}, 0, 0, 0, 0
	switched := false

	checkShow := func(when string) string {
		got, err := c17ShowDB()
		if err != nil {
			return fmt.Sprintf("%s: SHOW DATABASES failed: %v", when, err)
		}
		var want []string
		for n := range dbs {
			want = append(want, n)
		}
		for i := range got {
			got[i] = strings.ToLower(got[i]) // names are case-insensitive
		}
		sort.Strings(want)
		sort.Strings(got)
		if strings.Join(got, ",") != strings.Join(want, ",") {
			return fmt.Sprintf("%s: SHOW DATABASES lists %v, created databases are %v", when, got, want)
		}
		return ""
	}
	// checkAll selects every database in turn and compares it with its model;
	// the previously selected database is selected again afterwards.
	checkAll := func(when string) string {
		var names []string
		for n := range dbs {
			names = append(names, n)
		}
		sort.Strings(names)
		for _, n := range names {
			if err := eng.Exec("USE " + n); err != nil {
				return fmt.Sprintf("%s: USE %s failed: %v", when, n, err)
			}
			if msg := CompareAll(eng, dbs[n], trs[n]); msg != "" {
				return fmt.Sprintf("%s: database %s: %s", when, n, msg)
			}
		}
		if cur != "" {
			if err := eng.Exec("USE " + cur); err != nil {
				return fmt.Sprintf("%s: USE %s failed: %v", when, cur, err)
			}
		} else if len(names) > 0 {
			// keep the session state equal to the model's: nothing selected is not
			// restorable, so the model follows the session
			cur = names[len(names)-1]
		}
		return checkShow(when)
	}

	for i, op := range c.Ops {
		where := fmt.Sprintf("op %d (%s %s%s)", i, op.Op, op.Name, op.SQL)
		switch op.Op {
		case "createdb":
			err := eng.Exec(op.SQL)
			if dbs[op.Name] != nil {
				if err == nil {
					return where + ": creating a database that exists must fail"
				}
				if mk.IsPanic(err) {
					return where + ": " + err.Error()
				}
			} else {
				if err != nil {
					return fmt.Sprintf("%s: creating a new database failed: %v", where, err)
				}
				dbs[op.Name] = model.NewDB()
				trs[op.Name] = NewIDTracker()
			}
			if msg := checkShow(where); msg != "" {
				return msg
			}
		case "createlong":
			err := eng.Exec(op.SQL)
			if mk.IsPanic(err) {
				return where + ": " + err.Error()
			}
			if err == nil && dbs[op.Name] == nil {
				dbs[op.Name] = model.NewDB()
				trs[op.Name] = NewIDTracker()
			}
			// refused: it must not be listed, and the next restart must not stumble over it
			if msg := checkShow(where); msg != "" {
				return msg
			}
		case "use":
			err := eng.Exec(op.SQL)
			if dbs[op.Name] == nil {
				if err == nil {
					return where + ": selecting a database that does not exist must fail"
				}
				if mk.IsPanic(err) {
					return where + ": " + err.Error()
				}
				if msg := checkShow(where + " (failed USE)"); msg != "" {
					return msg
				}
			} else {
				if err != nil {
					return fmt.Sprintf("%s: USE of an existing database failed: %v", where, err)
				}
				if cur == op.Name {
					reuse++
				} else if cur != "" {
					switches++
					switched = true
				}
				cur = op.Name
			}
			// the session stays usable: the selected database (if any) reads back
			if cur != "" {
				if msg := CompareAll(eng, dbs[cur], trs[cur]); msg != "" {
					return fmt.Sprintf("%s: selected database %s: %s", where, cur, msg)
				}
			}
		case "show":
			if err := eng.Exec("SHOW DATABASES"); err != nil {
				return where + ": SHOW DATABASES failed: " + err.Error()
			}
			if msg := checkShow(where); msg != "" {
				return msg
			}
		case "tick":
			if err := mk.Guard(func() error { return storage.VerifTickAll(op.Reverse) }); err != nil {
				return where + ": flush tick failed: " + err.Error()
			}
			if switched {
				ticksAfterSwitch++
			}
			if cur != "" {
				if msg := CompareAll(eng, dbs[cur], trs[cur]); msg != "" {
					return fmt.Sprintf("%s: after a timer tick, database %s: %s", where, cur, msg)
				}
			}
		case "restart":
			if op.Crash {
				eng.Crash(true)
			} else {
				if err := eng.Shutdown(); err != nil {
					return where + ": shutdown failed: " + err.Error()
				}
				eng.Sess.RelationService = nil
				storage.VerifAbandonAll() // stores a session leaked die with the process
			}
			eng, err = mk.Start(dir)
			if err != nil {
				return where + ": restart failed: " + err.Error()
			}
			cur = ""
			restarts++
			if msg := checkAll(where + ", after the restart"); msg != "" {
				return msg
			}
		case "stmt":
			err := eng.ExecStmt(*op.Stmt)
			if cur == "" {
				if err == nil {
					return where + ": a table statement without a selected database must fail"
				}
				if mk.IsPanic(err) {
					return where + ": " + err.Error()
				}
				continue
			}
			if k, merr := dbs[cur].Apply(*op.Stmt); merr != nil || k != model.OK {
				return fmt.Sprintf("%s: case invalid in the model: %v %v", where, k, merr)
			}
			if err != nil {
				return fmt.Sprintf("%s: valid statement on database %s was refused: %v\n  %s", where, cur, err, op.Stmt)
			}
			withData[cur] = true
			if msg := CompareTable(eng, dbs[cur].Tables[op.Stmt.Table], trs[cur]); msg != "" {
				return fmt.Sprintf("%s on database %s: %s", where, cur, msg)
			}
		}
	}
	if msg := checkAll("at the end"); msg != "" {
		return msg
	}
	// every database still accepts new rows
	var names []string
	for n := range dbs {
		names = append(names, n)
	}
	sort.Strings(names)
	for _, n := range names {
		if err := eng.Exec("USE " + n); err != nil {
			return fmt.Sprintf("at the end: USE %s failed: %v", n, err)
		}
		for _, tn := range dbs[n].TableNames() {
			t := dbs[n].Tables[tn]
			s := model.Stmt{Kind: "insert", Table: tn, Rows: [][]model.Val{make([]model.Val, len(t.Cols))}}
			for i := range t.Cols {
				s.Rows[0][i] = model.Null()
			}
			dbs[n].Apply(s)
			if err := eng.ExecStmt(s); err != nil {
				return fmt.Sprintf("at the end: database %s no longer accepts rows in %s: %v", n, tn, err)
			}
			if msg := CompareTable(eng, t, trs[n]); msg != "" {
				return fmt.Sprintf("at the end, after one more insert into %s.%s: %s", n, tn, msg)
			}
		}
	}
	var labels []string
	if reuse > 0 {
		labels = append(labels, "re-use-of-current-database")
	}
	if restarts > 0 {
		labels = append(labels, "restart")
	}
	if ticksAfterSwitch > 0 {
		labels = append(labels, "tick-after-switch")
	}
	st.Record(b, len(withData) >= 2 && switches >= 2 && ticksAfterSwitch >= 1 && restarts >= 1, labels...)
	return ""
}

// c17Burst is a fixed history: several thousand rows written into one database without a tick in between
// (one flush interval of a bulk load), then the session switches to another database and back, goes on, and
// the program is restarted: the switch has to write out every one of the 1300+ dirty pages.
func c17Burst(rows int) c17Case {
	var c c17Case
	add := func(o c17Op) { c.Ops = append(c.Ops, o) }
	stmt := func(s model.Stmt) {
		s.SQL = gen.RenderStmt(gen.Plain(), s)
		add(c17Op{Op: "stmt", Stmt: &s})
	}
	add(c17Op{Op: "createdb", Name: "d1", SQL: "CREATE DATABASE d1"})
	add(c17Op{Op: "createdb", Name: "d2", SQL: "CREATE DATABASE d2"})
	add(c17Op{Op: "use", Name: "d1", SQL: "USE d1"})
	stmt(model.Stmt{Kind: "create", Table: "big", Cols: []model.Col{{Name: "a", Type: model.TInt}, {Name: "s", Type: model.TVarchar, Len: 16}}})
	for n := 0; n < rows; {
		ins := model.Stmt{Kind: "insert", Table: "big"}
		for i := 0; i < 100 && n < rows; i++ {
			ins.Rows = append(ins.Rows, []model.Val{model.Int(int64(n)), model.Str(fmt.Sprintf("v%d", n%7))})
			n++
		}
		stmt(ins)
	}
	add(c17Op{Op: "use", Name: "d2", SQL: "USE d2"})
	stmt(model.Stmt{Kind: "create", Table: "t", Cols: []model.Col{{Name: "k", Type: model.TInt}}})
	add(c17Op{Op: "use", Name: "d1", SQL: "USE d1"})
	stmt(model.Stmt{Kind: "insert", Table: "big", Rows: [][]model.Val{{model.Int(7), model.Str("last")}}})
	add(c17Op{Op: "restart"})
	return c
}

func TestC17(t *testing.T) {
	st := vlib.NewStats("C17")
	defer st.Write(Cfg, "C17")
	if Cfg.Replay == "" && Cfg.Shard == 0 {
		rows := 5200
		if Cfg.Tier == "thorough" {
			rows = 12000
		}
		bc := c17Burst(rows)
		if msg := c17Run(bc, st); msg != "" {
			b, _ := json.Marshal(bc)
			st.Fail("fixed bulk-load history: "+msg, b)
			vlib.Logf("FAIL C17 (bulk load, switch, restart): %s", msg)
			return
		}
	}
	vlib.DriveWith(t, vlib.Prop[c17Case]{ID: "C17", Gen: c17Gen, Run: c17Run}, Cfg, st)
}
