package props

// C14 - a statement that returns an error changes nothing.

import (
	"encoding/json"
	"fmt"
	"os"
	"path/filepath"
	"strings"
	"testing"

	"pgregory.net/rapid"

	"verif/harness/gen"
	"verif/harness/mk"
	"verif/harness/model"
	"verif/vlib"
)

const c14KnownID = "C14-multirow-partial-apply"

type c14Case struct {
	History []model.Stmt  `json:"history"`
	Failing model.Stmt    `json:"failing"`
	Kind    string        `json:"kind"`   // what makes it fail
	K       int           `json:"k"`      // index of the first offending row operation (0-based)
	N       int           `json:"n"`      // number of row operations
	Expect  model.ErrKind `json:"expect"` // the model's verdict
	Tick    bool          `json:"tick"`   // a timer tick between the failing statement and the restart
	// Before / After: valid UPDATEs of the same rows issued right before and right after a failing
	// UPDATE (each sets one other column): the same rows changed successfully, refused, changed again
	Before *model.Stmt `json:"before,omitempty"`
	After  *model.Stmt `json:"after,omitempty"`
}

func c14BadValue(rt *rapid.T, t *model.Table, kind string) (int, model.Val, bool) {
	var cands []int
	for i, c := range t.Cols {
		switch kind {
		case "type":
			cands = append(cands, i)
		case "intrange":
			if c.Type == model.TInt {
				cands = append(cands, i)
			}
		case "oversize":
			if c.Type == model.TVarchar {
				cands = append(cands, i)
			}
		}
	}
	if len(cands) == 0 {
		return 0, model.Val{}, false
	}
	ci := cands[rapid.IntRange(0, len(cands)-1).Draw(rt, "badcol")]
	switch kind {
	case "type":
		switch t.Cols[ci].Type {
		case model.TVarchar:
			return ci, model.Int(5), true
		case model.TBool:
			return ci, model.Str("yes"), true
		}
		return ci, model.Str("seven"), true
	case "intrange":
		return ci, model.Int(2147483648), true
	}
	return ci, model.Str(strings.Repeat("x", 401)), true
}

func c14Gen(rt *rapid.T) c14Case {
	cfg := gen.HistCfg{MinStmts: 2, MaxStmts: 14, MaxTables: 3, MaxCols: 4, Direct: false,
		RowCounts: []int{1, 2, 3, 5, 9, 10}, Small: rapid.Bool().Draw(rt, "small"), FlushFlags: true}
	db := model.NewDB()
	c := c14Case{History: gen.History(rt, cfg, db), Tick: rapid.Bool().Draw(rt, "tick")}
	names := db.TableNames()
	t := db.Tables[names[rapid.IntRange(0, len(names)-1).Draw(rt, "tbl")]]
	kinds := []string{"unknown-insert", "unknown-update", "unknown-delete", "dup-create", "colcount", "type", "intrange", "oversize", "upd-type", "upd-oversize-kth", "create-badlen", "create-longname", "where-error-kth", "where-error-kth", "case-variant", "where-unknown-col", "create-dupcol"}
	for tries := 0; ; tries++ {
		c.Kind = rapid.SampledFrom(kinds).Draw(rt, "failkind")
		s := model.Stmt{Table: t.Name}
		ok := true
		switch c.Kind {
		case "unknown-insert":
			s = gen.InsertStmt(rt, t, rapid.IntRange(1, 3).Draw(rt, "n"), false, true)
			s.Table = "no_such_table"
			c.N = len(s.Rows)
		case "unknown-update":
			s = model.Stmt{Kind: "update", Table: "no_such_table", Set: []model.Assign{{Col: "a", Val: model.Int(1)}}}
		case "unknown-delete":
			s = model.Stmt{Kind: "delete", Table: "no_such_table"}
		case "dup-create":
			s = model.Stmt{Kind: "create", Table: t.Name, Cols: gen.Columns(rt, 3)}
		case "create-dupcol":
			// a CREATE TABLE that names a column twice (exactly, or in another letter case): whether
			// that is an error is the implementation's choice; a half-created table is not
			cols := gen.Columns(rt, 4)
			i := rapid.IntRange(0, len(cols)-1).Draw(rt, "dupof")
			dup := cols[i]
			if rapid.IntRange(0, 3).Draw(rt, "dupcase") == 0 {
				dup.Name = strings.ToUpper(dup.Name)
			}
			dup.Type = model.ColType(rapid.IntRange(0, 3).Draw(rt, "duptype"))
			if dup.Type == model.TVarchar {
				dup.Len = 10
			}
			at := rapid.IntRange(0, len(cols)).Draw(rt, "dupat")
			cols = append(cols[:at], append([]model.Col{dup}, cols[at:]...)...)
			s = model.Stmt{Kind: "create", Table: "fresh_tbl", Cols: cols}
			s.SQL = gen.RenderStmt(gen.NewStyle(rt), s)
			c.K, c.N = at, len(cols)
			c.Expect, c.Failing = model.ErrType, s
			return c
		case "where-unknown-col":
			where := &model.Cond{Or: [][]model.Cmp{{{L: model.Operand{Col: "no_such_col"}, Op: "=", R: model.Operand{Lit: &model.Val{T: "i", I: 1}}}}}}
			if rapid.Bool().Draw(rt, "wdel") {
				s = model.Stmt{Kind: "delete", Table: t.Name, Where: where}
			} else {
				v := gen.Value(rt, "setv", t.Cols[0].Type, false, true, 4)
				s = model.Stmt{Kind: "update", Table: t.Name, Set: []model.Assign{{Col: t.Cols[0].Name, Val: v}}, Where: where}
			}
			s.SQL = gen.RenderStmt(gen.NewStyle(rt), s)
			c.K, c.N = 0, len(t.Rows)
			c.Expect, c.Failing = model.ErrType, s
			return c
		case "case-variant":
			// the table addressed in a different letter case: table names are case-sensitive, so
			// this is an unknown table - whatever the answer is, an error must not leave rows behind
			variant := strings.ToUpper(t.Name)
			if variant == t.Name || db.Tables[variant] != nil {
				ok = false
				break
			}
			n := rapid.SampledFrom([]int{1, 1, 2, 9}).Draw(rt, "n")
			s = gen.InsertStmt(rt, t, n, false, true)
			s.Table = variant
			s.SQL = gen.RenderStmt(gen.NewStyle(rt), s)
			c.K, c.N = 0, n
			c.Expect, c.Failing = model.ErrNoTable, s
			return c
		case "where-error-kth":
			// DELETE / UPDATE whose WHERE cannot be evaluated for a later row only:
			// an ordering comparison that meets a NULL (or a mistyped literal)
			ci, firstNull := -1, -1
			for i, col := range t.Cols {
				if col.Type == model.TBool {
					continue
				}
				for ri, r := range t.Rows {
					if r.Vals[i] == nil {
						if ri >= 1 && t.Rows[0].Vals[i] != nil {
							ci, firstNull = i, ri
						}
						break
					}
				}
			}
			var cmp model.Cmp
			if ci >= 0 {
				lit := model.Int(0)
				if t.Cols[ci].Type == model.TVarchar {
					lit = model.Str("")
				}
				cmp = model.Cmp{L: model.Operand{Col: t.Cols[ci].Name}, Op: ">=", R: model.Operand{Lit: &lit}}
				c.K, c.N = firstNull, len(t.Rows)
			} else if len(t.Rows) > 0 {
				// mistyped literal: fails on the first row
				var lit model.Val
				ci = 0
				if t.Cols[0].Type == model.TVarchar {
					lit = model.Int(3)
				} else {
					lit = model.Str("abc")
				}
				if t.Cols[0].Type == model.TBool || t.Rows[0].Vals[0] == nil {
					ok = false
					break
				}
				cmp = model.Cmp{L: model.Operand{Col: t.Cols[0].Name}, Op: "<", R: model.Operand{Lit: &lit}}
				c.K, c.N = 0, len(t.Rows)
			} else {
				ok = false
				break
			}
			where := &model.Cond{Or: [][]model.Cmp{{cmp}}}
			if rapid.Bool().Draw(rt, "wdel") {
				s = model.Stmt{Kind: "delete", Table: t.Name, Where: where}
			} else {
				v := gen.Value(rt, "setv", t.Cols[0].Type, false, true, 4)
				s = model.Stmt{Kind: "update", Table: t.Name, Set: []model.Assign{{Col: t.Cols[0].Name, Val: v}}, Where: where}
			}
			s.SQL = gen.RenderStmt(gen.NewStyle(rt), s)
			c.Expect, c.Failing = model.ErrType, s
			return c
		case "create-badlen", "create-longname":
			// a CREATE TABLE whose k-th column cannot be recorded in the catalog
			cols := gen.Columns(rt, 4)
			k := rapid.IntRange(0, len(cols)-1).Draw(rt, "k")
			if c.Kind == "create-badlen" {
				cols[k].Type, cols[k].Len = model.TVarchar, rapid.SampledFrom([]int{2147483648, 9999999999}).Draw(rt, "badlen")
			} else {
				cols[k].Name = "n" + strings.Repeat("x", rapid.IntRange(390, 420).Draw(rt, "namelen"))
			}
			s = model.Stmt{Kind: "create", Table: "fresh_tbl", Cols: cols}
			c.K, c.N = k, len(cols)
		case "colcount", "type", "intrange", "oversize":
			n := rapid.SampledFrom([]int{1, 1, 2, 3, 5, 9}).Draw(rt, "n")
			s = gen.InsertStmt(rt, t, n, false, true)
			k := rapid.IntRange(0, n-1).Draw(rt, "k")
			if c.Kind == "colcount" {
				if rapid.Bool().Draw(rt, "more") {
					s.Rows[k] = append(s.Rows[k], model.Int(1))
				} else if len(s.Rows[k]) > 1 {
					s.Rows[k] = s.Rows[k][:len(s.Rows[k])-1]
				} else {
					s.Rows[k] = append(s.Rows[k], model.Int(1))
				}
			} else {
				// the offending value must land in a column the statement names
				ci, v, found := c14BadValue(rt, t, c.Kind)
				if !found {
					ok = false
					break
				}
				pos := -1
				if len(s.InsCols) == 0 {
					pos = ci
				} else {
					for i, n := range s.InsCols {
						if n == t.Cols[ci].Name {
							pos = i
						}
					}
				}
				if pos < 0 {
					ok = false
					break
				}
				s.Rows[k][pos] = v
			}
			c.K, c.N = k, n
		case "upd-type":
			if len(t.Rows) == 0 {
				ok = false
				break
			}
			ci, v, found := c14BadValue(rt, t, rapid.SampledFrom([]string{"type", "intrange"}).Draw(rt, "updkind"))
			if !found {
				ok = false
				break
			}
			s = model.Stmt{Kind: "update", Table: t.Name, Set: []model.Assign{{Col: t.Cols[ci].Name, Val: v}}}
			c.N = len(t.Rows)
		case "upd-oversize-kth":
			// SET one VARCHAR column to a length that only some rows cannot take
			var vcols []int
			for i, col := range t.Cols {
				if col.Type == model.TVarchar {
					vcols = append(vcols, i)
				}
			}
			if len(vcols) < 2 || len(t.Rows) < 2 {
				ok = false
				break
			}
			ci := vcols[0]
			// find a length for which the first offending row is not the first row, if any
			best := -1
			for L := 1; L <= 400 && best < 0; L += 3 {
				first, any := -1, false
				for ri, r := range t.Rows {
					vals := append([]interface{}{}, r.Vals...)
					vals[ci] = strings.Repeat("y", L)
					if model.EncodedSize(t.Cols, vals) > model.MaxRowBytes {
						if first < 0 {
							first = ri
						}
						any = true
					}
				}
				if any && (first >= 1 || L > 390) {
					best = L
					c.K = first
				}
			}
			if best < 0 {
				ok = false
				break
			}
			s = model.Stmt{Kind: "update", Table: t.Name, Set: []model.Assign{{Col: t.Cols[ci].Name, Val: model.Str(strings.Repeat("y", best))}}}
			c.N = len(t.Rows)
		}
		if !ok {
			if tries > 20 {
				c.Kind = "dup-create"
				s = model.Stmt{Kind: "create", Table: t.Name, Cols: gen.Columns(rt, 3)}
			} else {
				continue
			}
		}
		k, err := db.Clone().Apply(s)
		if err != nil || k == model.OK {
			if tries > 40 {
				panic(fmt.Sprintf("cannot build a failing statement: %v %v", k, err))
			}
			continue
		}
		c.Expect = k
		if s.Kind != "create" || true {
			s.SQL = gen.RenderStmt(gen.NewStyle(rt), s)
		}
		c.Failing = s
		if c.Kind == "upd-type" && rapid.Bool().Draw(rt, "sandwich") {
			t := db.Tables[s.Table]
			bad := s.Set[len(s.Set)-1].Col
			constant := func(ct model.ColType) model.Val {
				switch ct {
				case model.TBool:
					return model.Bool(true)
				case model.TVarchar:
					return model.Str("p")
				}
				return model.Int(7)
			}
			var others []model.Col
			for _, col := range t.Cols {
				if col.Name != bad {
					others = append(others, col)
				}
			}
			if len(others) > 0 {
				mkUpd := func(col model.Col) *model.Stmt {
					u := model.Stmt{Kind: "update", Table: t.Name, Set: []model.Assign{{Col: col.Name, Val: constant(col.Type)}}}
					u.SQL = gen.RenderStmt(gen.Plain(), u)
					return &u
				}
				before := mkUpd(others[rapid.IntRange(0, len(others)-1).Draw(rt, "beforecol")])
				after := mkUpd(others[rapid.IntRange(0, len(others)-1).Draw(rt, "aftercol")])
				probe := db.Clone()
				k1, e1 := probe.Apply(*before)
				k2, e2 := probe.Apply(*after)
				if e1 == nil && e2 == nil && k1 == model.OK && k2 == model.OK {
					c.Before, c.After = before, after
					if rapid.Bool().Draw(rt, "validfirst") {
						// the refused statement also carries a valid assignment, in front of the bad one
						v := others[rapid.IntRange(0, len(others)-1).Draw(rt, "validcol")]
						val := constant(v.Type)
						if v.Type == model.TInt || v.Type == model.TBigInt {
							val = model.Int(99)
						}
						f := c.Failing
						f.Set = append([]model.Assign{{Col: v.Name, Val: val}}, f.Set...)
						if kk, ee := db.Clone().Apply(f); ee == nil && kk != model.OK {
							f.SQL = gen.RenderStmt(gen.NewStyle(rt), f)
							c.Failing, c.Expect = f, kk
						}
					}
				}
			}
		}
		break
	}
	return c
}

func c14Run(c c14Case, st *vlib.Stats) string {
	b, _ := json.Marshal(c)
	multirowLater := (c.Kind == "colcount" || c.Kind == "type" || c.Kind == "intrange" || c.Kind == "oversize" || c.Kind == "upd-oversize-kth" || c.Kind == "upd-type") && c.K >= 1
	dir := CaseDir("c14")
	img := filepath.Join(WorkDir, "c14-img")
	os.RemoveAll(img)
	defer os.RemoveAll(img)
	eng, err := mk.Start(dir)
	if err == nil {
		if err = CreateDatabases(eng); err == nil {
			err = eng.Exec("USE " + DBName)
		}
	}
	if err != nil {
		return "setup failed: " + err.Error()
	}
	defer func() {
		if eng != nil {
			eng.Crash(true)
		}
	}()
	m := model.NewDB()
	tr := NewIDTracker()
	unflushed := false
	for i, s := range c.History {
		if k, merr := m.Apply(s); merr != nil || k != model.OK {
			return fmt.Sprintf("case invalid in the model (statement %d: %v %v)", i, k, merr)
		}
		if err := eng.ExecStmt(s); err != nil {
			return fmt.Sprintf("history statement %d refused: %v", i, err)
		}
		unflushed = s.Kind != "create"
		if s.FlushAfter {
			eng.Flush()
			unflushed = false
		}
	}
	if c.K%4 == 1 {
		// a refused USE (a mistyped database name) before the failing statement: also a statement
		// that returned an error - the session must go on as if it had not been issued
		if err := eng.Exec("USE no_such_database"); err == nil {
			return "USE of a database that does not exist returned no error"
		} else if mk.IsPanic(err) {
			return "USE of a database that does not exist: " + err.Error()
		}
		if err := eng.Exec("USE " + DBName); err != nil {
			return "USE of the current database after a refused USE failed: " + err.Error()
		}
	}
	if c.Before != nil {
		if k, merr := m.Apply(*c.Before); merr != nil || k != model.OK {
			return fmt.Sprintf("harness: the UPDATE before the failing one is invalid in the model: %v %v", k, merr)
		}
		if err := eng.ExecStmt(*c.Before); err != nil {
			return fmt.Sprintf("the valid UPDATE before the failing one was refused: %v\n  %s", err, c.Before)
		}
	}
	if msg := CompareAll(eng, m, tr); msg != "" {
		return "before the failing statement: " + msg
	}
	// the state the listed finding leaves behind: the row operations before the offending one
	var partial *model.DB
	if multirowLater {
		partial = m.Clone()
		if err := partial.ApplyPrefix(c.Failing, c.K); err != nil {
			partial = nil
		}
	}
	ferr := eng.ExecStmt(c.Failing)
	if ferr == nil {
		switch c.Kind {
		case "create-badlen", "create-longname", "where-error-kth", "case-variant", "where-unknown-col", "huge-valid", "create-dupcol":
			// whether these fail is the implementation's choice (how wide the catalog's length
			// column is, whether a comparison with NULL is an error); the property only says
			// what must hold IF the statement returns an error
			st.Label("implementation-accepted-"+c.Kind, 1)
			st.Record(b, false, "kind-"+c.Kind)
			return ""
		}
		return fmt.Sprintf("the statement must fail (%s: %s) but returned no error\n  %s", c.Kind, c.Expect, c.Failing)
	}
	if mk.IsPanic(ferr) {
		return fmt.Sprintf("the statement must fail with an error, it panicked: %v", ferr)
	}
	knownHit := false
	check := func(e *mk.Engine, when string) string {
		msg := CompareAll(e, m, nil)
		if msg == "" {
			return ""
		}
		if partial != nil && CompareAll(e, partial, nil) == "" {
			knownHit = true
			return ""
		}
		return fmt.Sprintf("%s the failed statement (%s, offending row operation %d of %d): %s\n  %s\n  error was: %v", when, c.Kind, c.K, c.N, msg, c.Failing, ferr)
	}
	// one valid statement per table must still work - and must not pick up anything the failed one
	// left behind: it names a single column, every other column must come out NULL
	validInserts := func() string {
		for ti, name := range m.TableNames() {
			t := m.Tables[name]
			s := model.Stmt{Kind: "insert", Table: name, Rows: [][]model.Val{make([]model.Val, len(t.Cols))}}
			for i := range t.Cols {
				s.Rows[0][i] = model.Null()
			}
			if len(t.Cols) > 1 {
				ci := (ti + c.K) % len(t.Cols)
				s.InsCols = []string{t.Cols[ci].Name}
				s.Rows[0] = []model.Val{model.Null()}
			}
			m.Apply(s)
			if err := eng.ExecStmt(s); err != nil {
				return fmt.Sprintf("a valid insert into %s after the failed statement was refused: %v", name, err)
			}
			if msg := CompareTable(eng, t, nil); msg != "" {
				return "after a valid insert following the failed statement: " + msg
			}
		}
		return ""
	}
	if msg := check(eng, "immediately after"); msg != "" {
		return msg
	}
	if !knownHit && c.After != nil {
		// the same rows changed again, successfully, on another column: nothing of the refused statement
		// may come along
		if k, merr := m.Apply(*c.After); merr != nil || k != model.OK {
			return fmt.Sprintf("harness: the UPDATE after the failing one is invalid in the model: %v %v", k, merr)
		}
		if err := eng.ExecStmt(*c.After); err != nil {
			return fmt.Sprintf("a valid UPDATE of the same rows after the failed statement was refused: %v\n  %s", err, c.After)
		}
		if msg := CompareAll(eng, m, nil); msg != "" {
			return fmt.Sprintf("after the failed statement (%s) and a valid UPDATE of the same rows (%s): %s", c.Failing, c.After, msg)
		}
		st.Label("failing-update-between-two-valid-updates-of-the-same-rows", 1)
	}
	if !knownHit && !c.Tick {
		// in the same session, before any restart
		if msg := validInserts(); msg != "" {
			return msg
		}
	}
	if !knownHit && c.Failing.Kind != "create" && !c.Tick {
		// (in the same session, before any restart: what a failed statement may leave behind in the
		// session is as much a change as a row)
		if _, exists := m.Tables[c.Failing.Table]; !exists {
			// the statement failed because its table does not exist: creating that table
			// afterwards and using it must work as if the failed statement had never been issued
			cr := model.Stmt{Kind: "create", Table: c.Failing.Table, Cols: []model.Col{{Name: "a", Type: model.TInt}, {Name: "b", Type: model.TVarchar, Len: 10}}}
			cr.SQL = gen.RenderStmt(gen.Plain(), cr)
			ins := model.Stmt{Kind: "insert", Table: c.Failing.Table, Rows: [][]model.Val{{model.Int(1), model.Str("x")}, {model.Int(2), model.Str("")}}}
			ins.SQL = gen.RenderStmt(gen.Plain(), ins)
			ins2 := model.Stmt{Kind: "insert", Table: c.Failing.Table, InsCols: []string{"b"}, Rows: [][]model.Val{{model.Str("y")}}}
			ins2.SQL = gen.RenderStmt(gen.Plain(), ins2)
			for _, s := range []model.Stmt{cr, ins, ins2} {
				if k, merr := m.Apply(s); merr != nil || k != model.OK {
					return fmt.Sprintf("harness: follow-up statement invalid in the model: %v %v", k, merr)
				}
				if err := eng.ExecStmt(s); err != nil {
					return fmt.Sprintf("after the failed statement on the unknown table %s, creating and filling that table fails: %v\n  %s", c.Failing.Table, err, s)
				}
			}
			if msg := CompareAll(eng, m, nil); msg != "" {
				return fmt.Sprintf("after the failed statement on the unknown table %s, then CREATE TABLE and INSERTs: %s", c.Failing.Table, msg)
			}
		}
	}
	// crash branch: the files as they are now
	if err := mk.CopyDataDir(dir, img); err != nil {
		return "image copy failed: " + err.Error()
	}
	e2, err := mk.Start(img)
	if err != nil {
		os.Chdir(dir)
		return "crash right after the failed statement: recovery failed: " + err.Error()
	}
	msg := ""
	if err := e2.Exec("USE " + DBName); err != nil {
		msg = "USE after recovery failed: " + err.Error()
	} else {
		msg = check(e2, "after a crash + recovery following")
	}
	e2.Crash(false)
	os.Chdir(dir)
	if msg != "" {
		return msg
	}
	// tick + clean restart
	if c.Tick {
		eng.Flush()
	}
	if err := eng.Shutdown(); err != nil {
		return "shutdown failed: " + err.Error()
	}
	eng.Sess.RelationService = nil
	eng, err = mk.Start(dir)
	if err != nil {
		return "restart after the failed statement failed: " + err.Error()
	}
	if err := eng.Exec("USE " + DBName); err != nil {
		return "USE after restart failed: " + err.Error()
	}
	if msg := check(eng, "after a restart following"); msg != "" {
		return msg
	}
	if knownHit {
		st.HitKnown(c14KnownID, fmt.Sprintf("%s with the offending row operation at index %d of %d: the row operations before it stayed applied", c.Kind, c.K, c.N), b)
		if p := os.Getenv("VERIF_DUMP_KNOWN"); p != "" && len(b) < 2500 {
			if _, err := os.Stat(p); err != nil {
				os.WriteFile(p, b, 0644)
			}
		}
	} else {
		if c.Tick {
			if msg := validInserts(); msg != "" {
				return msg
			}
		}
	}
	labels := []string{"kind-" + c.Kind}
	if multirowLater {
		labels = append(labels, "offending-row-not-first")
		st.Exclude(0)
	}
	if unflushed {
		labels = append(labels, "unflushed-changes-before")
	}
	st.Record(b, (c.N >= 2 && c.K >= 1) || unflushed, labels...)
	return ""
}

// c14HugeCase is a fixed case per shard: a VALID statement that touches
// thousands of rows. Nothing says it must fail - but if the implementation
// refuses it (a size limit somewhere below the executor), the refusal must not
// leave the rows behind.
func c14HugeCase(shard int) c14Case {
	var c c14Case
	c.Kind = "huge-valid"
	add := func(s model.Stmt) model.Stmt {
		s.SQL = gen.RenderStmt(gen.Plain(), s)
		return s
	}
	c.History = append(c.History, add(model.Stmt{Kind: "create", Table: "big", Cols: []model.Col{{Name: "a", Type: model.TInt}, {Name: "s", Type: model.TVarchar, Len: 80}}}))
	pad := strings.Repeat("p", 50)
	rowsStmt := func(from, to int, wide bool) model.Stmt {
		ins := model.Stmt{Kind: "insert", Table: "big"}
		for n := from; n < to; n++ {
			v := "v"
			if wide {
				v = fmt.Sprintf("%s%d", pad, n)
			}
			ins.Rows = append(ins.Rows, []model.Val{model.Int(int64(n)), model.Str(v)})
		}
		return add(ins)
	}
	load := func(rows int, wide bool) {
		for n := 0; n < rows; n += 500 {
			to := n + 500
			if to > rows {
				to = rows
			}
			c.History = append(c.History, rowsStmt(n, to, wide))
		}
	}
	size := []int{3000, 4200, 5500}[(shard/3)%3]
	switch shard % 3 {
	case 0:
		load(20, false)
		c.Failing = rowsStmt(20, 20+size, true)
		c.N = size
	case 1:
		load(size, true)
		c.Failing = add(model.Stmt{Kind: "update", Table: "big", Set: []model.Assign{{Col: "s", Val: model.Str(pad + "updated")}}})
		c.N = size
	default:
		load(size*2+1000, false)
		c.Failing = add(model.Stmt{Kind: "delete", Table: "big"})
		c.N = size*2 + 1000
	}
	c.History[len(c.History)-1].FlushAfter = shard%2 == 0
	return c
}

func TestC14(t *testing.T) {
	st := vlib.NewStats("C14")
	defer st.Write(Cfg, "C14")
	if Cfg.Replay == "" {
		hc := c14HugeCase(Cfg.Shard)
		if msg := c14Run(hc, st); msg != "" {
			b, _ := json.Marshal(hc)
			st.Fail("fixed huge-statement case: "+msg, b)
			vlib.Logf("FAIL C14 (huge statement): %s", msg)
			return
		}
	}
	vlib.DriveWith(t, vlib.Prop[c14Case]{ID: "C14", Gen: c14Gen, Run: c14Run}, Cfg, st)
}
