package props

// C18 - no statement can crash the engine.

import (
	"encoding/json"
	"fmt"
	"os"
	"regexp"
	"strings"
	"sync/atomic"
	"testing"
	"time"

	"github.com/mk6i/mkdb/storage"

	"pgregory.net/rapid"

	"verif/harness/gen"
	"verif/harness/mk"
	"verif/vlib"
)

type c18Case struct {
	State  string   `json:"state"` // ok | nouse | faileduse | emptydb | timer
	SQL    []string `json:"sql"`
	ParkAt int      `json:"park_at,omitempty"` // timer state: hold a statement open at its k-th page lookup
	IdleMs int      `json:"idle_ms,omitempty"` // timer state: the session sits idle this long (timer running) before the statements
}

// the schema the statements run against: names come from the pools the
// grammar generator draws identifiers from, so that most statements resolve
// their tables and columns and then meet values of arbitrary types and NULLs
var c18Setup = []string{
	"CREATE TABLE t0 (a INT, b VARCHAR(20), c BOOLEAN, d BIGINT)",
	"INSERT INTO t0 VALUES (1, 'x', true, 10), (2, 'y', false, 20), (2, '', true, 30)",
	"INSERT INTO t0 (a) VALUES (3)",
	"INSERT INTO t0 (b, c) VALUES ('z', false)",
	"INSERT INTO t0 (d) VALUES (40), (50)",
	"CREATE TABLE t1 (a INT, k INT, v VARCHAR(10), name VARCHAR(10), flag BOOLEAN)",
	"INSERT INTO t1 VALUES (1, 1, 'p', 'n1', true), (2, 1, 'q', 'n2', false)",
	"INSERT INTO t1 (k) VALUES (7)",
	"CREATE TABLE t2 (a INT, b VARCHAR(5))",
	"CREATE TABLE orders (qty INT, note VARCHAR(30), name VARCHAR(10))",
	"INSERT INTO orders VALUES (5, 'five', 'ann'), (6, 'six', 'bob')",
	"INSERT INTO orders (note) VALUES ('only note')",
	// long names: result headings of 20 and more characters
	"CREATE TABLE measurements (relative_humidity_percent INT, station_identifier_code VARCHAR(12), a INT)",
	"INSERT INTO measurements VALUES (40, 'st-1', 1), (60, 'st-2', 2)",
	"INSERT INTO measurements (a) VALUES (3)",
	// 24 columns, for statements with long lists (see c18Wide)
	"CREATE TABLE wide (" + c18WideCols() + ")",
	"INSERT INTO wide VALUES (" + c18WideRow(1) + "), (" + c18WideRow(2) + "), (" + c18WideRow(1) + ")",
	"INSERT INTO wide (c0, c5, c23) VALUES (4, 'only', 9)",
}

// the 24 columns of table wide: INT, VARCHAR, BOOLEAN, BIGINT in turn
func c18WideCols() string {
	var cols []string
	for i := 0; i < 24; i++ {
		cols = append(cols, fmt.Sprintf("c%d %s", i, []string{"INT", "VARCHAR(8)", "BOOLEAN", "BIGINT"}[i%4]))
	}
	return strings.Join(cols, ", ")
}

func c18WideLit(i, seed int) string {
	return []string{fmt.Sprint(seed + i), fmt.Sprintf("'s%d'", seed), []string{"true", "false"}[seed%2], fmt.Sprint(1000*seed + i)}[i%4]
}

func c18WideRow(seed int) string {
	var vals []string
	for i := 0; i < 24; i++ {
		vals = append(vals, c18WideLit(i, seed))
	}
	return strings.Join(vals, ", ")
}

// c18Wide: statements whose lists are long - many grouping columns, sort keys,
// select-list items, assignments, named columns, joined tables -, over tables
// that exist, so that they get past name resolution and are executed.
func c18Wide(rt *rapid.T) string {
	m := rapid.SampledFrom([]int{4, 5, 6, 7, 8, 9, 12, 16, 17, 24}).Draw(rt, "wide_n")
	perm := rapid.Permutation([]int{0, 1, 2, 3, 4, 5, 6, 7, 8, 9, 10, 11, 12, 13, 14, 15, 16, 17, 18, 19, 20, 21, 22, 23}).Draw(rt, "wide_perm")[:m]
	var cols []string
	for _, i := range perm {
		cols = append(cols, fmt.Sprintf("c%d", i))
	}
	switch rapid.IntRange(0, 6).Draw(rt, "wide_kind") {
	case 0: // GROUP BY over m columns, aggregates anywhere in the select list
		items := append([]string{}, cols...)
		for k := rapid.IntRange(1, 3).Draw(rt, "wide_aggs"); k > 0; k-- {
			a := rapid.SampledFrom([]string{"count(*)", "avg(c0)", "count(c1)", "avg(c3)", "avg(c1)", "count(c2)"}).Draw(rt, "wide_agg")
			at := rapid.IntRange(0, len(items)).Draw(rt, "wide_at")
			items = append(items[:at], append([]string{a}, items[at:]...)...)
		}
		gb := rapid.Permutation(cols).Draw(rt, "wide_gperm")
		return "SELECT " + strings.Join(items, ", ") + " FROM wide GROUP BY " + strings.Join(gb, ", ")
	case 1: // ORDER BY over m keys
		var keys []string
		for _, c := range cols {
			keys = append(keys, c+rapid.SampledFrom([]string{"", " ASC", " DESC"}).Draw(rt, "wide_dir"))
		}
		return "SELECT * FROM wide ORDER BY " + strings.Join(keys, ", ")
	case 2: // a long select list of columns, comparisons and literals, some aliased
		var items []string
		for i, c := range cols {
			switch rapid.IntRange(0, 4).Draw(rt, "wide_item") {
			case 0:
				items = append(items, c+" = "+cols[(i+1)%len(cols)])
			case 1:
				items = append(items, fmt.Sprintf("%s AS x%d", c, i))
			case 2:
				items = append(items, fmt.Sprint(i))
			default:
				items = append(items, c)
			}
		}
		return "SELECT " + strings.Join(items, ", ") + " FROM wide WHERE c0 > 0 ORDER BY " + cols[0]
	case 3: // UPDATE with m assignments (now and then one of the wrong type)
		var sets []string
		for _, i := range perm {
			if rapid.IntRange(0, 15).Draw(rt, "wide_bad") == 0 {
				sets = append(sets, fmt.Sprintf("c%d = %s", i, c18WideLit(i+1, 3)))
			} else {
				sets = append(sets, fmt.Sprintf("c%d = %s", i, c18WideLit(i, 3)))
			}
		}
		return "UPDATE wide SET " + strings.Join(sets, ", ") + " WHERE c0 = " + fmt.Sprint(rapid.IntRange(0, 5).Draw(rt, "wide_key"))
	case 4: // INSERT naming m columns, two rows
		var v1, v2 []string
		for _, i := range perm {
			v1 = append(v1, c18WideLit(i, 5))
			v2 = append(v2, c18WideLit(i, 6))
		}
		return "INSERT INTO wide (" + strings.Join(cols, ", ") + ") VALUES (" + strings.Join(v1, ", ") + "), (" + strings.Join(v2, ", ") + ")"
	case 5: // a chain of joins
		k := rapid.IntRange(3, 7).Draw(rt, "wide_joins")
		var sb strings.Builder
		// (over `measurements` only: three rows with distinct keys that no generated statement can add to - a
		// chain over a table that free INSERTs fill with NULL rows is a cross product of astronomic size, which
		// the 20 s watchdog would take for a hang; it did, once, on the unchanged tree)
		sb.WriteString("SELECT count(*), avg(x0.a) FROM measurements x0")
		for j := 1; j < k; j++ {
			jt := rapid.SampledFrom([]string{"JOIN", "LEFT JOIN", "RIGHT JOIN", "INNER JOIN"}).Draw(rt, "wide_jt")
			fmt.Fprintf(&sb, " %s measurements x%d ON x%d.a = x%d.a", jt, j, j-1, j)
		}
		return sb.String()
	}
	// DELETE with a long conjunction over many columns
	var terms []string
	for _, i := range perm {
		terms = append(terms, fmt.Sprintf("c%d = %s", i, c18WideLit(i, 2)))
	}
	return "DELETE FROM wide WHERE " + strings.Join(terms, " AND ")
}

var c18Targeted = []string{
	"SELECT avg(b) FROM t0", "SELECT avg(c) FROM t0", "SELECT avg(a) FROM t0", "SELECT avg(d), count(a) FROM t0", "SELECT a, avg(d) FROM t0 GROUP BY a",
	"SELECT * FROM t0 ORDER BY a", "SELECT * FROM t0 ORDER BY b DESC, d", "SELECT * FROM t0 ORDER BY c", "SELECT a, a FROM t0 ORDER BY a", "SELECT * FROM t0 JOIN t1 ON t0.a = t1.a ORDER BY a",
	"SELECT * FROM t0 WHERE a > 'x'", "SELECT * FROM t0 WHERE b < 3", "SELECT * FROM t0 WHERE c > true", "SELECT * FROM t0 WHERE d >= 1", "SELECT * FROM t0 WHERE a", "SELECT * FROM t0 WHERE 1",
	"SELECT * FROM t0 LEFT JOIN t1 ON t0.a = t1.a ORDER BY k", "SELECT * FROM t0 RIGHT JOIN t2 ON t0.a = t2.a", "SELECT * FROM t0 JOIN t0 ON a = a", "SELECT count(nosuch) FROM t0", "SELECT nosuch FROM t0",
	"SELECT t9.a FROM t0", "SELECT * FROM nosuch", "SELECT a FROM t0 GROUP BY a", "SELECT count(*) FROM t0 GROUP BY a", "SELECT a, count(*) FROM t0 GROUP BY b", "SELECT a x, count(*) FROM t0 GROUP BY x, a",
	"SELECT 1 OR 2", "SELECT a OR b FROM t0", "SELECT a = b FROM t0", "SELECT a < c FROM t0", "SELECT * FROM t0 LIMIT 0 OFFSET 99", "SELECT *, a FROM t0", "SELECT * FROM t0 ORDER BY nosuch",
	"INSERT INTO t0 VALUES (1)", "INSERT INTO t0 (a, a) VALUES (1, 2)", "INSERT INTO t0 (nosuch) VALUES (1)", "INSERT INTO t0 VALUES ('x', 1, 2, true)", "INSERT INTO t0 VALUES ()", "INSERT INTO t2 () VALUES ()",
	"UPDATE t0 SET a = 'x'", "UPDATE t0 SET nosuch = 1", "UPDATE t0 SET a = b", "UPDATE t0 SET a = 1 WHERE nosuch = 2", "UPDATE t0 SET a = 1 WHERE d > 'x'", "UPDATE nosuch SET a = 1",
	"DELETE FROM t0 WHERE b > 1", "DELETE FROM t0 WHERE nosuch = 1", "DELETE FROM nosuch", "CREATE TABLE t0 (a INT)", "CREATE TABLE (a INT)", "CREATE TABLE t9 ()", "CREATE TABLE t9 (a INT, a INT)",
	"CREATE TABLE t9 (a VARCHAR(0))", "CREATE TABLE t9 (a VARCHAR(9999999999))", "SELECT * FROM sys_pages", "SELECT * FROM sys_schema ORDER BY field_length",
	"SELECT * FROM measurements", "SELECT relative_humidity_percent FROM measurements", "SELECT avg(relative_humidity_percent), count(station_identifier_code) FROM measurements",
	"SELECT avg(measurements.relative_humidity_percent) FROM measurements", "SELECT a AS an_alias_of_more_than_twenty_characters FROM t0", "SELECT count(*) AS number_of_rows_in_the_table FROM t0",
	"SELECT station_identifier_code, count(*) FROM measurements GROUP BY station_identifier_code", "SELECT m.relative_humidity_percent, t0.a FROM measurements m JOIN t0 ON m.a = t0.a",
	"SELECT a AS exactly_twenty_chars_ FROM t0", "SELECT a AS nineteen_characters FROM t0", "SELECT a AS abcdefghijklmnopqrstuvwxyzabcdefghijklmnopqrstuvwxyzabcdefghijklmnopqrstuvwxyz FROM t0",
	// just outside the grammar (if they parse, they must not crash)
	"SELECT avg(*) FROM t0", "SELECT a, avg(*) FROM t0 GROUP BY a", "SELECT avg(*)", "SELECT count() FROM t0", "SELECT avg() FROM t0", "SELECT count(*, a) FROM t0", "SELECT avg(1) FROM t0",
	"SELECT count(1) FROM t0", "SELECT avg(a, d) FROM t0", "SELECT count(count(*)) FROM t0", "SELECT avg(avg(a)) FROM t0", "SELECT count(t0.*) FROM t0", "SELECT t0.* FROM t0", "SELECT avg('x') FROM t0",
	"SELECT count(NULL) FROM t0", "SELECT avg(NULL) FROM t0", "SELECT * FROM t0 WHERE avg(a) > 1", "SELECT * FROM t0 ORDER BY count(*)", "SELECT * FROM t0 GROUP BY a", "SELECT count(*) FROM t0 ORDER BY a",
	"SELECT * FROM t0 LIMIT 1 LIMIT 2", "SELECT * FROM t0 LIMIT 3 OFFSET 1 LIMIT 2", "SELECT * FROM t0 OFFSET 1 OFFSET 2", "SELECT * FROM t0 OFFSET 1 LIMIT 2 OFFSET 3", "SELECT * FROM t0 ORDER BY a ORDER BY b",
	"SELECT * FROM t0 WHERE a = 1 WHERE a = 2", "SELECT * FROM t0 GROUP BY a GROUP BY b", "SELECT a FROM t0 FROM t1", "UPDATE t0 SET a = 1 SET d = 2", "INSERT INTO t0 VALUES (1) VALUES (2)",
	"SELECT count(*), a = 1 FROM t0 WHERE a = 99", "SELECT a = 1, count(*) FROM t2", "SELECT count(*), b = 'x' FROM t0 WHERE a > 1000", "SELECT avg(a), a FROM t2", "SELECT count(*), a FROM t0 WHERE a = 99",
	"SELECT count(*), 1 = 1 FROM t2", "SELECT count(a), a < d FROM t0 WHERE d > 1000", "SELECT a, count(*), b = b FROM t2 GROUP BY a", "SELECT count(*), t2.a = t1.a FROM t2 JOIN t1 ON t2.a = t1.a",
	"INSERT INTO t0 VALUES", "INSERT INTO t0 (a, b) VALUES", "INSERT INTO nosuch VALUES", "INSERT INTO t0 VALUES ;", "UPDATE t0 SET", "DELETE FROM t0 WHERE", "SELECT FROM t0", "SELECT * FROM t0 ORDER BY", "SELECT * FROM t0 GROUP BY",
	"SELECT * FROM t0 LIMIT a", "SELECT * FROM t0 LIMIT 'x'", "SELECT * FROM t0 OFFSET NULL", "INSERT INTO t0 VALUES (avg(a))", "INSERT INTO t0 VALUES (a)", "INSERT INTO t0 VALUES (NULL, NULL, NULL, NULL)",
	"UPDATE t0 SET a = NULL", "UPDATE t0 SET a = count(*)", "UPDATE t0 SET a = a", "DELETE FROM t0 WHERE count(*) > 1", "SELECT * FROM t0 WHERE NULL", "SELECT * FROM t0 WHERE a = NULL", "SELECT NULL FROM t0", "SELECT NULL",
	"USE nosuch", "USE d1", "CREATE DATABASE d1", "SHOW DATABASES", "SELECT count(*), avg(a) FROM t2", "SELECT a, count(*) FROM t2 GROUP BY a", "SELECT avg(a) FROM t0 WHERE a > 100",
}

func c18Gen(rt *rapid.T) c18Case {
	c := c18Case{State: rapid.SampledFrom([]string{"ok", "ok", "ok", "ok", "nouse", "faileduse", "emptydb"}).Draw(rt, "state")}
	if rapid.IntRange(0, 199).Draw(rt, "timerstate") == 137 { // (a mid-range value: rapid favours the ends of a range)
		c.State = "timer" // slow by nature (real time): one case in a hundred
	}
	if rapid.IntRange(0, 199).Draw(rt, "bulkstate") == 61 {
		// like "ok", with t2 holding several hundred rows: statements that touch
		// hundreds of rows at once (whole-table UPDATE/DELETE, long multi-row INSERT)
		c.State = "bulk"
		for i := rapid.IntRange(3, 8).Draw(rt, "nstmts_bulk"); i > 0; i-- {
			switch rapid.IntRange(0, 5).Draw(rt, "bulkq") {
			case 0:
				c.SQL = append(c.SQL, "UPDATE t2 SET b = 'u'")
			case 1:
				c.SQL = append(c.SQL, fmt.Sprintf("UPDATE t2 SET a = 7 WHERE a >= %d", rapid.IntRange(0, 90).Draw(rt, "from")))
			case 2:
				c.SQL = append(c.SQL, fmt.Sprintf("DELETE FROM t2 WHERE a >= %d", rapid.IntRange(0, 90).Draw(rt, "from")))
			case 3:
				c.SQL = append(c.SQL, c18BulkInsert(rapid.SampledFrom([]int{511, 512, 600, 1030}).Draw(rt, "rows")))
			case 4:
				c.SQL = append(c.SQL, "SELECT * FROM t2 JOIN t1 ON t2.a = t1.a ORDER BY b", "SELECT a, count(*), avg(a) FROM t2 GROUP BY a")
			default:
				c.SQL = append(c.SQL, gen.RenderAny(gen.NewStyle(rt), gen.FreeStmt(rt)))
			}
		}
		return c
	}
	n := rapid.IntRange(5, 40).Draw(rt, "nstmts")
	if c.State == "timer" {
		// real flush timer; up to three statements are held open for 130 ms at a page lookup
		n = rapid.IntRange(3, 10).Draw(rt, "nstmts_timer")
		c.ParkAt = rapid.IntRange(1, 8).Draw(rt, "parkat")
	}
	for i := 0; i < n; i++ {
		if rapid.IntRange(0, 4).Draw(rt, "targeted") == 0 {
			c.SQL = append(c.SQL, rapid.SampledFrom(c18Targeted).Draw(rt, "tq"))
			continue
		}
		q := gen.RenderAny(gen.NewStyle(rt), gen.FreeStmt(rt))
		if rapid.IntRange(0, 4).Draw(rt, "mutate") == 0 {
			q = c18Mutate(rt, q)
		}
		if rapid.IntRange(0, 39).Draw(rt, "longcond") == 21 {
			q = c18LongCond(rt)
		}
		if rapid.IntRange(0, 11).Draw(rt, "widestmt") == 5 {
			q = c18Wide(rt)
		}
		if rapid.IntRange(0, 11).Draw(rt, "remark") == 7 {
			// what people write after a statement: a remark in one of the usual comment styles, a second
			// terminator, stray text - with and without a line break behind it
			q += rapid.SampledFrom([]string{" -- note", " --", "; -- done", " # note", " /* c */", " /* open", " //x", "\n-- note", " -- note\n", ";;", "; ;", " ; select", "\n\n", " -- a -- b", "--"}).Draw(rt, "remark_text")
		}
		c.SQL = append(c.SQL, q)
	}
	return c
}

// c18LongCond: a condition of dozens of terms (the only way to write an
// IN-list in this dialect), in every place a condition can stand.
func c18LongCond(rt *rapid.T) string {
	n := rapid.SampledFrom([]int{12, 30, 48, 64, 200}).Draw(rt, "nterms")
	op := rapid.SampledFrom([]string{" OR ", " OR ", " AND ", "mixed"}).Draw(rt, "connective")
	var sb strings.Builder
	for i := 0; i < n; i++ {
		if i > 0 {
			switch {
			case op != "mixed":
				sb.WriteString(op)
			case i%3 == 0:
				sb.WriteString(" OR ")
			default:
				sb.WriteString(" AND ")
			}
		}
		fmt.Fprintf(&sb, "a = %d", i%7)
	}
	cond := sb.String()
	switch rapid.IntRange(0, 4).Draw(rt, "where") {
	case 0:
		return "UPDATE t0 SET d = 1 WHERE " + cond
	case 1:
		return "DELETE FROM t0 WHERE " + cond
	case 2:
		return "SELECT * FROM t0 JOIN t1 ON " + strings.ReplaceAll(cond, "a =", "t0.a =")
	case 3:
		return "SELECT " + cond + " FROM t0"
	}
	return "SELECT * FROM t0 WHERE " + cond
}

var c18TokRe = regexp.MustCompile(`'[^']*'|"[^"]*"|[\pL_][\pL\pN_]*|\d+|<=|>=|!=|[^\s\pL\pN_]`)

// c18Mutate changes one or two tokens of a statement of the grammar: most
// results no longer parse (fine), some parse to statements just outside the
// grammar the executor was written for - they must be answered, not crash.
func c18Mutate(rt *rapid.T, q string) string {
	toks := c18TokRe.FindAllString(q, -1)
	if len(toks) < 2 {
		return q
	}
	subst := []string{"*", "NULL", "1", "'x'", "(", ")", ",", "avg", "count", "t0", "a", "t0.a", "true", ".", "=", "AND", "AS", "FROM", "t1", "measurements"}
	for k := rapid.IntRange(1, 2).Draw(rt, "nmut"); k > 0; k-- {
		i := rapid.IntRange(0, len(toks)-1).Draw(rt, "mutat")
		switch rapid.IntRange(0, 4).Draw(rt, "mutkind") {
		case 0: // delete
			toks = append(toks[:i:i], toks[i+1:]...)
		case 1: // duplicate
			toks = append(toks[:i+1:i+1], toks[i:]...)
		case 2: // swap with the neighbour
			if i+1 < len(toks) {
				toks[i], toks[i+1] = toks[i+1], toks[i]
			}
		default: // replace
			toks[i] = rapid.SampledFrom(subst).Draw(rt, "subst")
		}
		if len(toks) < 2 {
			break
		}
	}
	return strings.Join(toks, " ")
}

func c18BulkInsert(rows int) string {
	var sb strings.Builder
	sb.WriteString("INSERT INTO t2 VALUES ")
	for i := 0; i < rows; i++ {
		if i > 0 {
			sb.WriteString(", ")
		}
		fmt.Fprintf(&sb, "(%d, 'v')", i)
	}
	return sb.String()
}

var c18Statement int64 // 1 while a generated statement (not the setup) is executing

func c18Run(c c18Case, st *vlib.Stats) string {
	dir := CaseDir("c18")
	eng, err := mk.Start(dir)
	if err != nil {
		return "setup failed: " + err.Error()
	}
	defer eng.Crash(true)
	if err := eng.Exec("CREATE DATABASE " + DBName); err != nil {
		return "setup failed: " + err.Error()
	}
	switch c.State {
	case "timer":
		// like "ok", but with the real 100 ms flush timer running: a statement that is still
		// working when a tick falls due must neither crash nor block for ever
		storage.VerifNoTimer = false
		var parks, lookups int64
		storage.VerifHook = func(point string, arg uint64) {
			if point == "page.fetch" && atomic.AddInt64(&lookups, 1)%int64(c.ParkAt+7) == int64(c.ParkAt) && atomic.LoadInt64(&parks) < 2 && atomic.LoadInt64(&c18Statement) == 1 {
				atomic.AddInt64(&parks, 1)
				time.Sleep(120 * time.Millisecond)
			}
		}
		defer func() { storage.VerifNoTimer = true; storage.VerifHook = nil }()
		eng.Exec("USE " + DBName)
		for _, s := range c18Setup {
			if err := eng.Exec(s); err != nil {
				return fmt.Sprintf("setup statement %q failed: %v", s, err)
			}
		}
	case "ok", "bulk":
		eng.Exec("USE " + DBName)
		setup := c18Setup
		if c.State == "bulk" {
			for i := 0; i < 7; i++ {
				setup = append(setup[:len(setup):len(setup)], c18BulkInsert(100))
			}
		}
		for _, s := range setup {
			if err := eng.Exec(s); err != nil {
				return fmt.Sprintf("setup statement %q failed: %v", s, err)
			}
		}
	case "faileduse":
		if err := eng.Exec("USE nosuchdb"); err == nil {
			return "USE of a non-existent database succeeded"
		} else if mk.IsPanic(err) {
			return "USE of a non-existent database: " + err.Error()
		}
	case "emptydb":
		eng.Exec("USE " + DBName)
	}
	if c.IdleMs > 0 {
		time.Sleep(time.Duration(c.IdleMs) * time.Millisecond)
	}
	for i, q := range c.SQL {
		done := make(chan error, 1)
		atomic.StoreInt64(&c18Statement, 1)
		go func() { done <- eng.Exec(q) }()
		var err error
		select {
		case err = <-done:
		case <-time.After(20 * time.Second):
			// a hung statement cannot be abandoned (its goroutine holds locks and the store): report
			// the case as it is and end this worker - no shrinking, the schedule is part of the cause
			msg := fmt.Sprintf("statement %d did not return within 20 s (session state %s): %q", i, c.State, q)
			cb, _ := json.Marshal(c)
			st.Fail(msg, cb)
			st.Write(Cfg, "C18")
			vlib.Logf("FAIL C18: %s", msg)
			os.Exit(1)
		}
		atomic.StoreInt64(&c18Statement, 0)
		if mk.IsPanic(err) {
			return fmt.Sprintf("statement %d crashed the engine (session state %s): %q\n%v", i, c.State, q, err)
		}
		_, perr := mk.ParseSQL(q)
		label := "parse-error"
		nontrivial := false
		if perr == nil {
			if err != nil {
				label, nontrivial = "parsed-then-refused", true
			} else {
				label = "executed"
			}
		}
		st.RecordKey(c.State+"|"+q, nontrivial, func() []byte {
			b, _ := json.Marshal(map[string]string{"state": c.State, "sql": q, "outcome": label})
			return b
		}, label, "state-"+c.State)
		if (c.State == "ok" || c.State == "timer" || c.State == "bulk") && i%7 == 6 {
			// the session must still answer (a generated USE may have selected
			// another database, so select the populated one again first)
			if err := eng.Exec("USE " + DBName); err != nil {
				return fmt.Sprintf("after statement %d (%q) USE %s fails: %v", i, q, DBName, err)
			}
			if _, err := eng.Query("SELECT * FROM t1"); err != nil {
				return fmt.Sprintf("after statement %d (%q) the session no longer answers SELECT * FROM t1: %v", i, q, err)
			}
		}
	}
	return ""
}

func TestC18(t *testing.T) {
	st := vlib.NewStats("C18")
	defer st.Write(Cfg, "C18")
	if Cfg.Replay == "" && (Cfg.Shard == 0 || (Cfg.Tier == "thorough" && Cfg.Shard == 1)) {
		// one fixed case: a session that sits idle for seconds with the flush timer running and then
		// switches databases and goes on (what the timer goroutine does while nothing happens must
		// not get in the way of the statements that follow)
		ic := c18Case{State: "timer", ParkAt: 3, IdleMs: 5600 + 6400*Cfg.Shard,
			SQL: []string{"CREATE DATABASE d_after_idle", "USE d_after_idle", "CREATE TABLE t0 (a INT)", "INSERT INTO t0 VALUES (1)", "USE " + DBName, "SELECT * FROM t0", "USE d_after_idle", "SELECT * FROM t0"}}
		if msg := c18Run(ic, st); msg != "" {
			b, _ := json.Marshal(ic)
			st.Fail("fixed idle-session case: "+msg, b)
			vlib.Logf("FAIL C18 (idle session): %s", msg)
			return
		}
	}
	vlib.DriveWith(t, vlib.Prop[c18Case]{ID: "C18", Gen: c18Gen, Run: c18Run}, Cfg, st)
}
