package props

// C18 - no statement can crash the engine.

import (
	"encoding/json"
	"fmt"
	"testing"
	"time"

	"pgregory.net/rapid"

	"verif/harness/gen"
	"verif/harness/mk"
	"verif/vlib"
)

type c18Case struct {
	State string   `json:"state"` // ok | nouse | faileduse | emptydb
	SQL   []string `json:"sql"`
}

// the schema the statements run against: names come from the pools the
// grammar generator draws identifiers from, so that most statements resolve
// their tables and columns and then meet values of arbitrary types and NULLs
var c18Setup = []string{
	"CREATE TABLE t0 (a INT, b VARCHAR(20), c BOOLEAN, d BIGINT)",
	"INSERT INTO t0 VALUES (1, 'x', true, 10), (2, 'y', false, 20), (2, '', true, 30)",
	"INSERT INTO t0 (a) VALUES (3)",
	"INSERT INTO t0 (b, c) VALUES ('z', false)",
	"INSERT INTO t0 (d) VALUES (40), (50)",
	"CREATE TABLE t1 (a INT, k INT, v VARCHAR(10), name VARCHAR(10), flag BOOLEAN)",
	"INSERT INTO t1 VALUES (1, 1, 'p', 'n1', true), (2, 1, 'q', 'n2', false)",
	"INSERT INTO t1 (k) VALUES (7)",
	"CREATE TABLE t2 (a INT, b VARCHAR(5))",
	"CREATE TABLE orders (qty INT, note VARCHAR(30), name VARCHAR(10))",
	"INSERT INTO orders VALUES (5, 'five', 'ann'), (6, 'six', 'bob')",
	"INSERT INTO orders (note) VALUES ('only note')",
}

var c18Targeted = []string{
	"SELECT avg(b) FROM t0", "SELECT avg(c) FROM t0", "SELECT avg(a) FROM t0", "SELECT avg(d), count(a) FROM t0", "SELECT a, avg(d) FROM t0 GROUP BY a",
	"SELECT * FROM t0 ORDER BY a", "SELECT * FROM t0 ORDER BY b DESC, d", "SELECT * FROM t0 ORDER BY c", "SELECT a, a FROM t0 ORDER BY a", "SELECT * FROM t0 JOIN t1 ON t0.a = t1.a ORDER BY a",
	"SELECT * FROM t0 WHERE a > 'x'", "SELECT * FROM t0 WHERE b < 3", "SELECT * FROM t0 WHERE c > true", "SELECT * FROM t0 WHERE d >= 1", "SELECT * FROM t0 WHERE a", "SELECT * FROM t0 WHERE 1",
	"SELECT * FROM t0 LEFT JOIN t1 ON t0.a = t1.a ORDER BY k", "SELECT * FROM t0 RIGHT JOIN t2 ON t0.a = t2.a", "SELECT * FROM t0 JOIN t0 ON a = a", "SELECT count(nosuch) FROM t0", "SELECT nosuch FROM t0",
	"SELECT t9.a FROM t0", "SELECT * FROM nosuch", "SELECT a FROM t0 GROUP BY a", "SELECT count(*) FROM t0 GROUP BY a", "SELECT a, count(*) FROM t0 GROUP BY b", "SELECT a x, count(*) FROM t0 GROUP BY x, a",
	"SELECT 1 OR 2", "SELECT a OR b FROM t0", "SELECT a = b FROM t0", "SELECT a < c FROM t0", "SELECT * FROM t0 LIMIT 0 OFFSET 99", "SELECT *, a FROM t0", "SELECT * FROM t0 ORDER BY nosuch",
	"INSERT INTO t0 VALUES (1)", "INSERT INTO t0 (a, a) VALUES (1, 2)", "INSERT INTO t0 (nosuch) VALUES (1)", "INSERT INTO t0 VALUES ('x', 1, 2, true)", "INSERT INTO t0 VALUES ()", "INSERT INTO t2 () VALUES ()",
	"UPDATE t0 SET a = 'x'", "UPDATE t0 SET nosuch = 1", "UPDATE t0 SET a = b", "UPDATE t0 SET a = 1 WHERE nosuch = 2", "UPDATE t0 SET a = 1 WHERE d > 'x'", "UPDATE nosuch SET a = 1",
	"DELETE FROM t0 WHERE b > 1", "DELETE FROM t0 WHERE nosuch = 1", "DELETE FROM nosuch", "CREATE TABLE t0 (a INT)", "CREATE TABLE (a INT)", "CREATE TABLE t9 ()", "CREATE TABLE t9 (a INT, a INT)",
	"CREATE TABLE t9 (a VARCHAR(0))", "CREATE TABLE t9 (a VARCHAR(9999999999))", "SELECT * FROM sys_pages", "SELECT * FROM sys_schema ORDER BY field_length",
	"USE nosuch", "USE d1", "CREATE DATABASE d1", "SHOW DATABASES", "SELECT count(*), avg(a) FROM t2", "SELECT a, count(*) FROM t2 GROUP BY a", "SELECT avg(a) FROM t0 WHERE a > 100",
}

func c18Gen(rt *rapid.T) c18Case {
	c := c18Case{State: rapid.SampledFrom([]string{"ok", "ok", "ok", "ok", "nouse", "faileduse", "emptydb"}).Draw(rt, "state")}
	n := rapid.IntRange(5, 40).Draw(rt, "nstmts")
	for i := 0; i < n; i++ {
		if rapid.IntRange(0, 4).Draw(rt, "targeted") == 0 {
			c.SQL = append(c.SQL, rapid.SampledFrom(c18Targeted).Draw(rt, "tq"))
			continue
		}
		c.SQL = append(c.SQL, gen.RenderAny(gen.NewStyle(rt), gen.FreeStmt(rt)))
	}
	return c
}

func c18Run(c c18Case, st *vlib.Stats) string {
	dir := CaseDir("c18")
	eng, err := mk.Start(dir)
	if err != nil {
		return "setup failed: " + err.Error()
	}
	defer eng.Crash(true)
	if err := eng.Exec("CREATE DATABASE " + DBName); err != nil {
		return "setup failed: " + err.Error()
	}
	switch c.State {
	case "ok":
		eng.Exec("USE " + DBName)
		for _, s := range c18Setup {
			if err := eng.Exec(s); err != nil {
				return fmt.Sprintf("setup statement %q failed: %v", s, err)
			}
		}
	case "faileduse":
		if err := eng.Exec("USE nosuchdb"); err == nil {
			return "USE of a non-existent database succeeded"
		} else if mk.IsPanic(err) {
			return "USE of a non-existent database: " + err.Error()
		}
	case "emptydb":
		eng.Exec("USE " + DBName)
	}
	for i, q := range c.SQL {
		done := make(chan error, 1)
		go func() { done <- eng.Exec(q) }()
		var err error
		select {
		case err = <-done:
		case <-time.After(20 * time.Second):
			return fmt.Sprintf("statement %d did not return within 20 s (session state %s): %q", i, c.State, q)
		}
		if mk.IsPanic(err) {
			return fmt.Sprintf("statement %d crashed the engine (session state %s): %q\n%v", i, c.State, q, err)
		}
		_, perr := mk.ParseSQL(q)
		label := "parse-error"
		nontrivial := false
		if perr == nil {
			if err != nil {
				label, nontrivial = "parsed-then-refused", true
			} else {
				label = "executed"
			}
		}
		st.RecordKey(c.State+"|"+q, nontrivial, func() []byte {
			b, _ := json.Marshal(map[string]string{"state": c.State, "sql": q, "outcome": label})
			return b
		}, label, "state-"+c.State)
		if c.State == "ok" && i%7 == 6 {
			// the session must still answer (a generated USE may have selected
			// another database, so select the populated one again first)
			if err := eng.Exec("USE " + DBName); err != nil {
				return fmt.Sprintf("after statement %d (%q) USE %s fails: %v", i, q, DBName, err)
			}
			if _, err := eng.Query("SELECT * FROM t1"); err != nil {
				return fmt.Sprintf("after statement %d (%q) the session no longer answers SELECT * FROM t1: %v", i, q, err)
			}
		}
	}
	return ""
}

func TestC18(t *testing.T) {
	vlib.Drive(t, vlib.Prop[c18Case]{ID: "C18", Gen: c18Gen, Run: c18Run})
}
