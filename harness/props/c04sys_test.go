package props

// C04, second part: process death at every PHYSICAL write to the data file.
//
// The first part takes its crash points from the hook in fileStore.update, one
// per page. What the code below that point does with a page - one write, or
// several - it cannot see. Here a child process (this test binary, re-invoked)
// runs a small history under strace, which kills it on entering the N-th
// pwrite64 system call - the call the data file is written with -, for every N
// of the flush under attack; the parent then runs the real start-up recovery
// on what the dead process left behind. The flush under attack follows
// UPDATE and DELETE statements only: they allocate no pages, so none of its
// torn states lies in the region of the listed finding
// C04-torn-flush-fresh-pages, and every one of them has to recover to exactly
// the acknowledged statements.

import (
	"bufio"
	"encoding/json"
	"fmt"
	"os"
	"os/exec"
	"path/filepath"
	"runtime"
	"strings"
	"testing"

	"pgregory.net/rapid"

	"github.com/mk6i/mkdb/storage"

	"verif/harness/gen"
	"verif/harness/mk"
	"verif/harness/model"
	"verif/vlib"
)

type c04SysCase struct {
	SysSetup   []model.Stmt `json:"sys_setup"`
	SysVictims []model.Stmt `json:"sys_victims"`
	// KillAt > 0 (replay files): only this physical write is attacked
	KillAt int `json:"kill_at,omitempty"`
}

func c04SysGen(rt *rapid.T) c04SysCase {
	var c c04SysCase
	db := model.NewDB()
	add := func(to *[]model.Stmt, s model.Stmt) {
		s.SQL = gen.RenderStmt(gen.Plain(), s)
		gen.MustApply(db, s)
		*to = append(*to, s)
	}
	ntab := rapid.IntRange(1, 2).Draw(rt, "sys_tables")
	rows := map[string]int{}
	for ti := 0; ti < ntab; ti++ {
		name := fmt.Sprintf("t%d", ti)
		add(&c.SysSetup, model.Stmt{Kind: "create", Table: name, Cols: []model.Col{{Name: "a", Type: model.TInt}, {Name: "s", Type: model.TVarchar, Len: 40}}})
		n := rapid.SampledFrom([]int{6, 12, 20, 40}).Draw(rt, "sys_rows")
		ins := model.Stmt{Kind: "insert", Table: name}
		for i := 0; i < n; i++ {
			ins.Rows = append(ins.Rows, []model.Val{model.Int(int64(i)), model.Str(strings.Repeat("v", 1+i%7))})
		}
		add(&c.SysSetup, ins)
		rows[name] = n
	}
	for k := rapid.IntRange(2, 5).Draw(rt, "sys_nvictims"); k > 0; k-- {
		name := fmt.Sprintf("t%d", rapid.IntRange(0, ntab-1).Draw(rt, "sys_tbl"))
		lo := model.Int(int64(rapid.IntRange(0, rows[name]-1).Draw(rt, "sys_from")))
		where := &model.Cond{Or: [][]model.Cmp{{{L: model.Operand{Col: "a"}, Op: rapid.SampledFrom([]string{">=", "=", "<", "!="}).Draw(rt, "sys_op"), R: model.Operand{Lit: &lo}}}}}
		if rapid.IntRange(0, 3).Draw(rt, "sys_del") == 0 {
			add(&c.SysVictims, model.Stmt{Kind: "delete", Table: name, Where: where})
		} else {
			// rows of different lengths before and after: the cells of a page move
			val := model.Str(strings.Repeat(rapid.SampledFrom([]string{"u", "w"}).Draw(rt, "sys_ch"), rapid.SampledFrom([]int{0, 1, 5, 18, 33}).Draw(rt, "sys_len")))
			add(&c.SysVictims, model.Stmt{Kind: "update", Table: name, Set: []model.Assign{{Col: "s", Val: val}}, Where: where})
		}
	}
	return c
}

// TestC04SyscallChild is the process that dies: it runs the case in the
// directory it is given, reporting progress through a file (write(2), which
// the injection does not count).
func TestC04SyscallChild(t *testing.T) {
	caseFile := os.Getenv("VERIF_SYS_CASE")
	if caseFile == "" {
		t.Skip("helper for C04")
	}
	runtime.LockOSThread() // strace counts system calls per thread: everything this history does happens on one
	dir, progress := os.Getenv("VERIF_SYS_DIR"), os.Getenv("VERIF_SYS_PROGRESS")
	say := func(what string) {
		f, err := os.OpenFile(progress, os.O_APPEND|os.O_CREATE|os.O_WRONLY, 0644)
		if err == nil {
			f.WriteString(what + "\n")
			f.Close()
		}
	}
	fail := func(what string) {
		say("ERROR " + what)
		os.Exit(3)
	}
	raw, err := os.ReadFile(caseFile)
	if err != nil {
		fail(err.Error())
	}
	var c c04SysCase
	if err := json.Unmarshal(raw, &c); err != nil {
		fail(err.Error())
	}
	storage.VerifNoTimer = true
	if err := mk.FreshDir(dir); err != nil {
		fail(err.Error())
	}
	eng, err := mk.Start(dir)
	if err == nil {
		if err = CreateDatabases(eng); err == nil {
			err = eng.Exec("USE " + DBName)
		}
	}
	if err != nil {
		fail("setup: " + err.Error())
	}
	for _, s := range c.SysSetup {
		if err := eng.ExecStmt(s); err != nil {
			fail("setup statement: " + err.Error())
		}
	}
	if err := eng.Flush(); err != nil {
		fail("setup flush: " + err.Error())
	}
	say("SETUP")
	for i, s := range c.SysVictims {
		if err := eng.ExecStmt(s); err != nil {
			fail(fmt.Sprintf("victim %d: %v", i, err))
		}
		say(fmt.Sprintf("ACK %d", i))
	}
	say("FLUSHING")
	if err := eng.Flush(); err != nil {
		fail("victim flush: " + err.Error())
	}
	say("FLUSHED")
	os.Exit(0)
}

// c04SysChild runs the child under strace; killAt = 0 only counts. It returns
// the progress lines and, when counting, the number of pwrite64 calls before
// the SETUP mark and in total.
func c04SysChild(c c04SysCase, base string, killAt int) (progress []string, setupWrites, totalWrites int, err error) {
	os.RemoveAll(base)
	os.MkdirAll(base, 0755)
	caseFile := filepath.Join(base, "case.json")
	b, _ := json.Marshal(c)
	os.WriteFile(caseFile, b, 0644)
	progFile := filepath.Join(base, "progress.txt")
	traceFile := filepath.Join(base, "trace.txt")
	args := []string{"-f", "-o", traceFile, "-e", "trace=pwrite64,write", "-e", "signal=none"}
	if killAt > 0 {
		args = []string{"-f", "-o", "/dev/null", "-e", "trace=pwrite64", "-e", "signal=none", "-e", fmt.Sprintf("inject=pwrite64:signal=SIGKILL:when=%d", killAt)}
	}
	args = append(args, os.Args[0], "-test.run", "^TestC04SyscallChild$", "-test.timeout", "120s")
	cmd := exec.Command("strace", args...)
	cmd.Env = append(os.Environ(), "VERIF_SYS_CASE="+caseFile, "VERIF_SYS_DIR="+filepath.Join(base, "db"), "VERIF_SYS_PROGRESS="+progFile,
		"VERIF_OUT="+filepath.Join(base, "childout"), "VERIF_REPLAY=", "VERIF_JOURNAL=")
	cmd.Run()
	if pf, perr := os.Open(progFile); perr == nil {
		sc := bufio.NewScanner(pf)
		for sc.Scan() {
			progress = append(progress, sc.Text())
		}
		pf.Close()
	}
	if killAt == 0 {
		tf, terr := os.Open(traceFile)
		if terr != nil {
			return progress, 0, 0, fmt.Errorf("no strace output: %v", terr)
		}
		defer tf.Close()
		sc := bufio.NewScanner(tf)
		sc.Buffer(make([]byte, 1<<20), 1<<20)
		seenSetup := false
		for sc.Scan() {
			l := sc.Text()
			switch {
			case strings.Contains(l, "pwrite64("):
				totalWrites++
				if !seenSetup {
					setupWrites++
				}
			case strings.Contains(l, `write(`) && strings.Contains(l, `"SETUP\n"`):
				seenSetup = true
			}
		}
		if !seenSetup {
			return progress, 0, 0, fmt.Errorf("the child did not get through its set-up: %v", progress)
		}
	}
	return progress, setupWrites, totalWrites, nil
}

var c04SysUnavailable bool

// the physical write at which the last failing run died (a saved case names it: Prop.Amend)
var c04SysKill int

func c04SysRun(c c04SysCase, st *vlib.Stats) string {
	if c04SysUnavailable {
		return ""
	}
	if _, err := exec.LookPath("strace"); err != nil {
		c04SysUnavailable = true
		st.Label("syscall-level-part-skipped(no strace)", 1)
		return ""
	}
	base := filepath.Join(WorkDir, "c04sys")
	defer os.RemoveAll(base)
	defer os.Chdir(WorkDir)
	prog, setupW, totalW, err := c04SysChild(c, base, 0)
	if err != nil || len(prog) == 0 || prog[len(prog)-1] != "FLUSHED" || totalW <= setupW {
		// tracing does not work here (no ptrace), or the history is not what it should be
		if len(prog) > 0 && strings.HasPrefix(prog[len(prog)-1], "ERROR") {
			return "harness: the child could not run the case: " + prog[len(prog)-1]
		}
		c04SysUnavailable = true
		st.Label("syscall-level-part-skipped(strace cannot trace here)", 1)
		st.Note("syscall-level part skipped: %v, progress %v, writes %d/%d", err, prog, setupW, totalW)
		return ""
	}
	full := model.NewDB()
	for _, s := range append(append([]model.Stmt{}, c.SysSetup...), c.SysVictims...) {
		full.Apply(s)
	}
	b, _ := json.Marshal(c)
	st.Record(b, totalW-setupW >= 3, "syscall-level-deaths", fmt.Sprintf("syscall-level-victim-flush-writes-%s", map[bool]string{true: ">=3", false: "<3"}[totalW-setupW >= 3]))
	from, to := setupW+1, totalW
	if c.KillAt > 0 {
		from, to = c.KillAt, c.KillAt
	}
	for n := from; n <= to; n++ {
		prog, _, _, _ := c04SysChild(c, base, n)
		acked := 0
		flushing := false
		for _, l := range prog {
			if strings.HasPrefix(l, "ACK ") {
				acked++
			}
			if l == "FLUSHING" {
				flushing = true
			}
			if strings.HasPrefix(l, "ERROR") {
				return fmt.Sprintf("harness: the child failed before physical write %d: %s", n, l)
			}
		}
		if !flushing || acked != len(c.SysVictims) {
			// (the writes before the victim flush are the set-up's: not attacked)
			st.Label("syscall-level-death-before-the-victim-flush(not judged)", 1)
			continue
		}
		st.AddExtra("syscall_level_deaths_recovered", 1)
		dbdir := filepath.Join(base, "db")
		eng, err := mk.Start(dbdir)
		if err != nil {
			c04SysKill = n
			return fmt.Sprintf("the process died entering physical write %d of %d to the data file (the victim flush begins at write %d; no page was allocated since the flush before): the database does not start: %v", n, totalW, setupW+1, err)
		}
		msg := ""
		if err := eng.Exec("USE " + DBName); err != nil {
			msg = "USE failed: " + err.Error()
		} else {
			msg = CompareAll(eng, full, nil)
		}
		eng.Crash(false)
		os.Chdir(WorkDir)
		if msg != "" {
			c04SysKill = n
			return fmt.Sprintf("the process died entering physical write %d of %d to the data file (the victim flush begins at write %d; every statement had been acknowledged, no page was allocated since the flush before): after the restart %s", n, totalW, setupW+1, msg)
		}
	}
	return ""
}
