package props

import (
	"os"
	"path/filepath"
	"strings"
	"testing"

	"verif/vlib"
)

func TestMain(m *testing.M) {
	Cfg = vlib.GetConfig()
	dir := Cfg.OutDir
	if dir == "" {
		d, err := os.MkdirTemp("", "verif-props-")
		if err != nil {
			panic(err)
		}
		dir = d
		defer os.RemoveAll(d)
	}
	WorkDir = filepath.Join(dir, "work")
	os.MkdirAll(WorkDir, 0755)
	if err := os.Chdir(WorkDir); err != nil {
		panic(err)
	}
	coordinator := os.Getenv("VERIF_FUZZ_FAILDIR") != ""
	for _, a := range os.Args {
		if strings.HasPrefix(a, "-test.fuzzworker") {
			coordinator = false
		}
	}
	if !coordinator {
		// (the coordinator of a native fuzzing run reports progress on stdout)
		vlib.Silence()
	}
	code := m.Run()
	vlib.Unsilence()
	os.RemoveAll(WorkDir)
	os.Exit(code)
}
