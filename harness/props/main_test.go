package props

import (
	"os"
	"path/filepath"
	"testing"

	"verif/vlib"
)

func TestMain(m *testing.M) {
	Cfg = vlib.GetConfig()
	dir := Cfg.OutDir
	if dir == "" {
		d, err := os.MkdirTemp("", "verif-props-")
		if err != nil {
			panic(err)
		}
		dir = d
		defer os.RemoveAll(d)
	}
	WorkDir = filepath.Join(dir, "work")
	os.MkdirAll(WorkDir, 0755)
	if err := os.Chdir(WorkDir); err != nil {
		panic(err)
	}
	vlib.Silence()
	code := m.Run()
	vlib.Unsilence()
	os.RemoveAll(WorkDir)
	os.Exit(code)
}
