package props

// C10 - parsing is faithful: the text of a statement yields that statement.

import (
	"encoding/json"
	"fmt"
	"strings"
	"testing"

	"github.com/mk6i/mkdb/sql"
	"pgregory.net/rapid"

	"verif/harness/gen"
	"verif/harness/mk"
	"verif/harness/model"
	"verif/vlib"
)

type c10Case struct {
	Stmt gen.AnyStmt `json:"stmt"`
	SQL1 string      `json:"sql1"`
	SQL2 string      `json:"sql2"`
	// a case of the exhaustive boolean-shape sweep instead of a statement tree
	// Noise: texts that are NOT statements (truncated or garbled ones), parsed
	// before and between the renderings: a refusal must leave nothing behind
	// that changes how the next text is read
	Noise      []string `json:"noise,omitempty"`
	BoolSQL    string   `json:"bool_sql,omitempty"`
	BoolLeaves int      `json:"bool_leaves,omitempty"`
	BoolExpect bool     `json:"bool_expect,omitempty"`
}

func c10Gen(rt *rapid.T) c10Case {
	s := gen.FreeStmt(rt)
	c := c10Case{Stmt: s, SQL1: gen.RenderAny(gen.NewStyle(rt), s), SQL2: gen.RenderAny(gen.NewStyle(rt), s)}
	for k := rapid.SampledFrom([]int{0, 0, 1, 2, 3}).Draw(rt, "nnoise"); k > 0; k-- {
		f := strings.Fields(gen.RenderAny(gen.Plain(), gen.FreeStmt(rt)))
		if len(f) == 0 {
			continue
		}
		switch rapid.IntRange(0, 3).Draw(rt, "noisekind") {
		case 0, 1: // cut after a token
			f = f[:rapid.IntRange(1, len(f)).Draw(rt, "cut")]
		case 2: // one token replaced
			f[rapid.IntRange(0, len(f)-1).Draw(rt, "at")] = rapid.SampledFrom([]string{"NULL", ",", "(", ")", "=", "FROM", "*", "'x'", "1", "AND", "a"}).Draw(rt, "tok")
		default: // one token dropped
			i := rapid.IntRange(0, len(f)-1).Draw(rt, "drop")
			f = append(f[:i:i], f[i+1:]...)
		}
		c.Noise = append(c.Noise, strings.Join(f, " "))
	}
	return c
}

func condHasBoth(c *model.Cond) bool {
	if c == nil || len(c.Or) < 2 {
		return false
	}
	for _, conj := range c.Or {
		if len(conj) >= 2 {
			return true
		}
	}
	return false
}

func c10Nontrivial(a gen.AnyStmt) (bool, []string) {
	var labels []string
	nt := false
	switch a.Kind {
	case "select":
		q := a.Select
		clauses := 0
		if len(q.Joins) > 0 {
			clauses++
			labels = append(labels, fmt.Sprintf("joins-%d", len(q.Joins)))
		}
		if q.Where != nil {
			clauses++
		}
		if len(q.GroupBy) > 0 {
			clauses++
			labels = append(labels, "group-by")
		}
		if len(q.OrderBy) > 0 {
			clauses++
			labels = append(labels, "order-by")
		}
		if q.Limit != nil || q.Offset != nil {
			clauses++
			labels = append(labels, "limit-offset")
		}
		if clauses >= 2 || len(q.Items) >= 3 || len(q.OrderBy) >= 3 || len(q.GroupBy) >= 3 {
			nt = true
		}
		both := condHasBoth(q.Where)
		for _, j := range q.Joins {
			both = both || condHasBoth(j.On)
		}
		for _, it := range q.Items {
			both = both || condHasBoth(it.Cond)
		}
		if both {
			nt = true
			labels = append(labels, "and+or")
		}
		labels = append(labels, "select")
	case "dml":
		d := a.DML
		labels = append(labels, d.Kind)
		if len(d.Rows) >= 3 || len(d.Set) >= 3 || len(d.Cols) >= 3 || len(d.InsCols) >= 3 || condHasBoth(d.Where) {
			nt = true
		}
	default:
		labels = append(labels, a.Kind)
	}
	return nt, labels
}

// c10Recent: the refused texts this process has parsed lately. If a failure
// depends on what an earlier refusal left behind in the parser, the saved case
// must bring those texts along to fail in a fresh process too.
var c10Recent []string

func c10Amend(c c10Case) c10Case {
	c.Noise = append(append([]string{}, c10Recent...), c.Noise...)
	return c
}

func c10Run(c c10Case, st *vlib.Stats) string {
	if c.BoolSQL != "" {
		return c10CheckBool(c.BoolSQL, c.BoolLeaves, c.BoolExpect)
	}
	nt, labels := c10Nontrivial(c.Stmt)
	b, _ := json.Marshal(c.Stmt)
	st.Record(b, nt, labels...)
	want := mk.Canon(mk.AnyAST(c.Stmt))
	for i, q := range []string{c.SQL1, c.SQL2} {
		for ni, n := range c.Noise {
			if ni%2 == i {
				mk.Guard(func() error { _, e := mk.ParseSQL(n); return e }) // whatever it answers
				c10Recent = append(c10Recent, n)
				if len(c10Recent) > 40 {
					c10Recent = c10Recent[len(c10Recent)-40:]
				}
			}
		}
		var got interface{}
		err := mk.Guard(func() error {
			var e error
			got, e = mk.ParseSQL(q)
			return e
		})
		if err != nil {
			return fmt.Sprintf("rendering %d of a statement of the supported grammar does not parse: %v\n  text: %q\n  want: %s", i+1, err, q, want)
		}
		if g := mk.Canon(got); g != want {
			return fmt.Sprintf("rendering %d parses to a different statement\n  text: %q\n  want: %s\n  got:  %s", i+1, q, want, g)
		}
	}
	return ""
}

// c10Shapes: every OR-of-ANDs shape with at most 6 comparisons (63 shapes) x
// every valuation of the leaves; the parsed condition, evaluated by a tiny
// evaluator over the AST, must equal "AND binds tighter than OR".
func c10Shapes(st *vlib.Stats) string {
	var comps func(n int) [][]int
	comps = func(n int) [][]int {
		if n == 0 {
			return [][]int{{}}
		}
		var out [][]int
		for first := 1; first <= n; first++ {
			for _, rest := range comps(n - first) {
				out = append(out, append([]int{first}, rest...))
			}
		}
		return out
	}
	contexts := []string{"SELECT * FROM t WHERE %s", "SELECT %s", "SELECT * FROM t JOIN u ON %s", "DELETE FROM t WHERE %s", "UPDATE t SET a = 1 WHERE %s", "SELECT %s FROM t ORDER BY a LIMIT 3"}
	for n := 1; n <= 6; n++ {
		for _, shape := range comps(n) {
			for val := 0; val < 1<<uint(n); val++ {
				// leaf j is "j+1 = j+1" when true, "j+1 = 0" when false
				var ors []string
				expect := false
				leaf := 0
				for _, size := range shape {
					var ands []string
					all := true
					for k := 0; k < size; k++ {
						t := val&(1<<uint(leaf)) != 0
						if t {
							ands = append(ands, fmt.Sprintf("%d = %d", leaf+1, leaf+1))
						} else {
							ands = append(ands, fmt.Sprintf("%d = 0", leaf+1))
							all = false
						}
						leaf++
					}
					ors = append(ors, strings.Join(ands, " AND "))
					expect = expect || all
				}
				cond := strings.Join(ors, " OR ")
				ctx := contexts[(val+n+len(shape))%len(contexts)]
				q := fmt.Sprintf(ctx, cond)
				if msg := c10CheckBool(q, n, expect); msg != "" {
					cb, _ := json.Marshal(c10Case{BoolSQL: q, BoolLeaves: n, BoolExpect: expect})
					st.Fail(fmt.Sprintf("boolean shape %v valuation %b: %s", shape, val, msg), cb)
					return msg
				}
				st.RecordKey(q, n >= 3 && len(shape) >= 2 && len(shape) < n, func() []byte { b, _ := json.Marshal(q); return b }, "boolean-shape")
				st.AddExtra("boolean_shape_valuations", 1)
			}
		}
	}
	return ""
}

// c10CheckBool parses one statement holding a condition of n integer
// comparisons and evaluates the parsed condition independently of mkdb.
func c10CheckBool(q string, n int, expect bool) string {
	ctx := q
	shape := "condition"
	val := 0
	var parsed interface{}
	err := mk.Guard(func() error {
		var e error
		parsed, e = mk.ParseSQL(q)
		return e
	})
	if err != nil {
		return fmt.Sprintf("boolean shape %v does not parse: %v (%q)", shape, err, q)
	}
	var root interface{}
	switch p := parsed.(type) {
	case sql.Select:
		switch {
		case strings.Contains(ctx, "WHERE"):
			root = p.WhereClause.(sql.WhereClause).SearchCondition
		case strings.Contains(ctx, "JOIN"):
			root = p.FromClause[0].(sql.QualifiedJoin).JoinCondition
		default:
			root = p.SelectList[0].ValueExpressionPrimary
		}
	case sql.DeleteStatementSearched:
		root = p.WhereClause.(sql.WhereClause).SearchCondition
	case sql.UpdateStatementSearched:
		root = p.Where.(sql.WhereClause).SearchCondition
	}
	leaves := 0
	got, err := mk.EvalBool(root, func(cp sql.ComparisonPredicate) bool {
		leaves++
		return cp.CompOp == sql.EQ && cp.LHS == cp.RHS
	})
	if err != nil {
		return fmt.Sprintf("boolean shape %v: %v (%q)", shape, err, q)
	}
	if leaves != n {
		return fmt.Sprintf("boolean shape %v: %d of %d comparisons are in the parsed condition (%q)", shape, leaves, n, q)
	}
	if got != expect {
		return fmt.Sprintf("boolean shape %v valuation %b: parsed condition evaluates to %v, 'AND binds tighter than OR' gives %v (%q)", shape, val, got, expect, q)
	}
	return ""
}

func TestC10(t *testing.T) {
	st := vlib.NewStats("C10")
	defer st.Write(Cfg, "C10")
	if Cfg.Replay == "" && Cfg.Shard == 0 {
		if msg := c10Shapes(st); msg != "" {
			vlib.Logf("FAIL C10 (boolean shapes): %s", msg)
			return
		}
	}
	vlib.DriveWith(t, vlib.Prop[c10Case]{ID: "C10", Gen: c10Gen, Run: c10Run, Amend: c10Amend}, Cfg, st)
}
