package props

// C13 - the background flusher only ever sees statement boundaries.
//
// The one schedule-quantified property. The harness owns the schedule: with
// the REAL 100 ms flush timer running, the verif hook parks the session
// goroutine inside generated statements for 120-350 ms (1-3 timer ticks) - at
// the statement's log write (all its page changes are done, its log append is
// not), or, for statements that do not log, at a generated page lookup (hook page.fetch).
// Oracles: (1) monitor - while a statement is parked no page or header write
// and no flush may happen on another goroutine; (2) the race detector as a
// sanitizer (binary built with -race), its reports scoped to the property.

import (
	"bytes"
	"encoding/json"
	"errors"
	"fmt"
	"os"
	"path/filepath"
	"regexp"
	"runtime"
	"strconv"
	"strings"
	"sync"
	"sync/atomic"
	"testing"
	"time"

	"github.com/mk6i/mkdb/storage"
	"pgregory.net/rapid"

	"verif/harness/gen"
	"verif/harness/mk"
	"verif/harness/model"
	"verif/vlib"
)

type c13Step struct {
	Stmt      *model.Stmt `json:"stmt,omitempty"`
	Select    string      `json:"select,omitempty"` // a SELECT instead of a DDL/DML statement
	ParkMs    int         `json:"park_ms,omitempty"`
	ParkAt    int         `json:"park_at,omitempty"`    // park at this page lookup (statements that do not log, or ParkEarly)
	ParkEarly bool        `json:"park_early,omitempty"` // park a logging statement at a page lookup instead of at its log write
	IdleMs    int         `json:"idle_ms,omitempty"`    // pause after the statement
	Refused   bool        `json:"refused,omitempty"`    // the Select text names a table that does not exist: an error is the right answer
}

type c13Case struct {
	Steps []c13Step `json:"steps"`
	// optionally a small page cache, so that reads also evict and reload pages
	Cache int `json:"cache,omitempty"`
	// LogWatch: the physical writes to the log file are watched (hook VerifWrapLog): whenever the flusher
	// writes a page or the header, every byte statements have appended to the log so far must have been
	// handed to the log file. 2 = the store is opened the way csvimport -disable-wal-fsync opens it
	// (OpenRelation(db, false)) and the statements reach it through the session object
	LogWatch int `json:"log_watch,omitempty"`
	// CloseDuringLast: while the last statement is held open, another goroutine closes the session - what
	// the console's signal handler does on SIGINT / SIGTERM. The closing flush has to wait for the statement
	// like every other flush.
	CloseDuringLast bool `json:"close_during_last,omitempty"`
}

func c13Gen(rt *rapid.T) c13Case {
	cfg := gen.HistCfg{MaxTables: 3, MaxCols: 3, Direct: false, RowCounts: []int{1, 2, 4, 9, 10}, Small: true}
	db := model.NewDB()
	var c c13Case
	c.LogWatch = rapid.SampledFrom([]int{0, 0, 1, 2, 2}).Draw(rt, "logwatch")
	if rapid.IntRange(0, 7).Draw(rt, "bulk") == 3 {
		// long statements: a table of several hundred rows, then statements that
		// touch all of it, each held open early so that a tick is already waiting
		// for the lock while the statement works through its rows
		add := func(s model.Stmt, park bool) {
			s.SQL = gen.RenderStmt(gen.Plain(), s)
			gen.MustApply(db, s)
			st := c13Step{Stmt: &s}
			if park {
				st.ParkMs = rapid.SampledFrom([]int{120, 160, 230}).Draw(rt, "bparkms")
				st.ParkAt = rapid.IntRange(1, 6).Draw(rt, "bparkat")
				st.ParkEarly = true
			}
			c.Steps = append(c.Steps, st)
		}
		add(model.Stmt{Kind: "create", Table: "big", Cols: []model.Col{{Name: "a", Type: model.TInt}, {Name: "s", Type: model.TVarchar, Len: 8}}}, false)
		rows := rapid.SampledFrom([]int{520, 600, 800, 1100}).Draw(rt, "bulk_rows")
		for n := 0; n < rows; {
			ins := model.Stmt{Kind: "insert", Table: "big"}
			for i := 0; i < 130 && n < rows; i++ {
				ins.Rows = append(ins.Rows, []model.Val{model.Int(int64(n)), model.Str("v")})
				n++
			}
			add(ins, false)
		}
		for k := rapid.IntRange(2, 4).Draw(rt, "bulk_ops"); k > 0; k-- {
			switch rapid.IntRange(0, 3).Draw(rt, "bulk_op") {
			case 0, 1:
				add(model.Stmt{Kind: "update", Table: "big", Set: []model.Assign{{Col: "s", Val: model.Str(fmt.Sprintf("u%d", k))}}}, true)
			case 2:
				lit := model.Int(int64(rapid.IntRange(0, 40).Draw(rt, "bulk_from")))
				add(model.Stmt{Kind: "delete", Table: "big", Where: &model.Cond{Or: [][]model.Cmp{{{L: model.Operand{Col: "a"}, Op: ">=", R: model.Operand{Lit: &lit}}}}}}, true)
			default:
				c.Steps = append(c.Steps, c13Step{Select: "SELECT * FROM big", ParkMs: 160, ParkAt: rapid.IntRange(1, 6).Draw(rt, "bselat")})
			}
		}
		return c
	}
	if rapid.Bool().Draw(rt, "smallcache") {
		c.Cache = rapid.IntRange(10, 16).Draw(rt, "cache")
		if rapid.Bool().Draw(rt, "biginserts") {
			// statements that dirty (nearly) as many pages as the cache holds
			cfg.RowCounts = []int{1, 9, 17, 40, 60}
		}
	}
	n := rapid.IntRange(6, 14).Draw(rt, "nsteps")
	parks := 0
	for len(c.Steps) < n {
		st := c13Step{IdleMs: rapid.SampledFrom([]int{0, 0, 0, 20, 60, 110, 150}).Draw(rt, "idle")}
		names := db.TableNames()
		if len(names) > 0 && rapid.IntRange(0, 9).Draw(rt, "refusedstmt") == 0 {
			// a statement that is refused (misspelt table): whatever the session does to answer it
			// belongs inside the statement bracket like everything else
			st.Refused = true
			tn := names[rapid.IntRange(0, len(names)-1).Draw(rt, "seltbl")]
			st.Select = rapid.SampledFrom([]string{"SELECT * FROM nosuch_tbl", "INSERT INTO nosuch_tbl VALUES (1)", "UPDATE nosuch_tbl SET a = 1", "DELETE FROM nosuch_tbl",
				"SELECT * FROM " + tn + " x JOIN nosuch_tbl y ON 1 = 1"}).Draw(rt, "refusedsql")
		} else if len(names) > 0 && rapid.IntRange(0, 4).Draw(rt, "sel") == 0 {
			tn := names[rapid.IntRange(0, len(names)-1).Draw(rt, "seltbl")]
			st.Select = "SELECT * FROM " + tn
			if rapid.IntRange(0, 5).Draw(rt, "selcatalog") == 0 {
				// the catalog tables are tables like any other: read inside the bracket
				st.Select = rapid.SampledFrom([]string{"SELECT * FROM sys_pages", "SELECT * FROM sys_schema", "SELECT * FROM sys_pages p JOIN sys_schema s ON p.table_name = s.table_name",
					"SELECT count(*) FROM sys_schema"}).Draw(rt, "catsel")
			} else if k := rapid.IntRange(0, 3).Draw(rt, "seljoins"); k >= 2 {
				// a chain of joins: the statement fetches one table after the other, all
				// inside one bracket (self-joins under aliases: the key types match)
				col := db.Tables[tn].Cols[0].Name
				st.Select = fmt.Sprintf("SELECT * FROM %s x JOIN %s y ON x.%s = y.%s", tn, tn, col, col)
				if k == 3 {
					t3 := names[rapid.IntRange(0, len(names)-1).Draw(rt, "seltbl3")]
					c3 := db.Tables[t3].Cols[0]
					if c3.Type == db.Tables[tn].Cols[0].Type {
						st.Select += fmt.Sprintf(" JOIN %s z ON y.%s = z.%s", t3, col, c3.Name)
					} else {
						st.Select += fmt.Sprintf(" JOIN %s z ON y.%s = z.%s", tn, col, col)
					}
				}
			}
		} else {
			s, ok := gen.NextStmt(rt, cfg, db)
			if !ok {
				continue
			}
			gen.MustApply(db, s)
			st.Stmt = &s
		}
		if parks < 4 && rapid.IntRange(0, 1).Draw(rt, "park") == 0 {
			st.ParkMs = rapid.SampledFrom([]int{120, 160, 230, 350}).Draw(rt, "parkms")
			st.ParkAt = rapid.IntRange(1, 12).Draw(rt, "parkat")
			st.ParkEarly = rapid.IntRange(0, 2).Draw(rt, "parkearly") == 0
			parks++
		}
		c.Steps = append(c.Steps, st)
	}
	if last := len(c.Steps) - 1; last >= 0 && c.Steps[last].Stmt != nil && c.Steps[last].Stmt.Kind != "create" && rapid.IntRange(0, 2).Draw(rt, "closeduringlast") == 0 {
		c.CloseDuringLast = true
		c.Steps[last].ParkMs, c.Steps[last].ParkEarly, c.Steps[last].IdleMs = 160, rapid.Bool().Draw(rt, "closeparkearly"), 0
		if c.Steps[last].ParkAt == 0 {
			c.Steps[last].ParkAt = 2
		}
	}
	return c
}

func curGID() int64 {
	var buf [64]byte
	n := runtime.Stack(buf[:], false)
	f := bytes.Fields(buf[:n])
	if len(f) < 2 {
		return -1
	}
	id, _ := strconv.ParseInt(string(f[1]), 10, 64)
	return id
}

type c13Event struct {
	point   string
	stmtIdx int
}

var c13RaceRe = regexp.MustCompile(`engine\.Evaluate(CreateTable|Insert|Update|Delete|Select)\(`)

// c13RaceReports parses the race detector's log files and returns the reports
// that are in the property's scope (one side inside a statement evaluator, the
// other inside the flusher) and the number of out-of-scope ones.
var c13OutOfScopeSample []string

func c13RaceReports(dir string, from map[string]int64) (inScope []string, outOfScope int) {
	files, _ := filepath.Glob(filepath.Join(dir, "race.*"))
	for _, f := range files {
		b, err := os.ReadFile(f)
		if err != nil {
			continue
		}
		start := from[f]
		if int64(len(b)) <= start {
			continue
		}
		text := string(b[start:])
		from[f] = int64(len(b))
		for _, block := range strings.Split(text, "==================") {
			if !strings.Contains(block, "WARNING: DATA RACE") {
				continue
			}
			flusher := strings.Contains(block, "(*fileStore).flushPages") || strings.Contains(block, "storage.newFileStore.func1")
			if c13RaceRe.MatchString(block) && flusher {
				inScope = append(inScope, strings.TrimSpace(block))
			} else {
				outOfScope++
				if len(c13OutOfScopeSample) < 3 {
					// keep the two access sites for the evidence notes
					var sites []string
					lines := strings.Split(block, "\n")
					for i, l := range lines {
						if (strings.Contains(l, " by goroutine ") || strings.Contains(l, "by main goroutine")) && i+2 < len(lines) {
							sites = append(sites, strings.TrimSpace(l)+" -> "+strings.TrimSpace(lines[i+1])+" / "+strings.TrimSpace(lines[i+3]))
						}
					}
					c13OutOfScopeSample = append(c13OutOfScopeSample, strings.Join(sites, " || "))
				}
			}
		}
	}
	return
}

var c13RaceOffsets = map[string]int64{}

func c13Run(c c13Case, st *vlib.Stats) string {
	b, _ := json.Marshal(c)
	storage.VerifNoTimer = false // the real 100 ms flush timer
	defer func() { storage.VerifNoTimer = true; storage.VerifHook = nil }()
	dir := CaseDir("c13")
	// database creation and USE happen before the monitored window
	storage.VerifNoTimer = true
	eng, err := mk.Start(dir)
	if err == nil {
		err = eng.Exec("CREATE DATABASE " + DBName)
	}
	if err != nil {
		return "setup failed: " + err.Error()
	}
	sess := curGID()
	var mu sync.Mutex
	var violations []string
	var parked, stmtIdx, lookups, parkAt, parkMs, parkEarly, didPark int64
	var flushesAfterPark int64
	var lastParkEnd int64 // unix nanos
	// a total order over hook events: a flusher event that falls between two
	// storage accesses of one statement ran while that statement held its bracket
	var seq, firstSess, lastSess, stmtWrites, flusherIn int64
	var flusherSeqs []int64
	var flusherWhat []string
	noCreate := int64(0)              // 1 while the running statement is not a CREATE TABLE
	var logAppended, logWritten int64 // bytes statements appended to the log / bytes handed to the log file
	storage.VerifHook = func(point string, arg uint64) {
		gid := curGID()
		n := atomic.AddInt64(&seq, 1)
		switch point {
		case "wal.write":
			atomic.AddInt64(&logAppended, int64(arg))
		case "wal.fwrite":
			atomic.AddInt64(&logWritten, int64(arg))
		case "page.write", "header.write":
			if c.LogWatch > 0 && gid != sess {
				if a, w := atomic.LoadInt64(&logAppended), atomic.LoadInt64(&logWritten); w < a {
					mu.Lock()
					violations = append(violations, fmt.Sprintf("%s on the flusher goroutine while %d of the %d bytes that statements had appended to the log were not yet handed to the log file: a page reached the data file before the log append of the statement that changed it was complete (around statement %d)", point, a-w, a, atomic.LoadInt64(&stmtIdx)))
					mu.Unlock()
				}
			}
		}
		if gid == sess {
			if atomic.LoadInt64(&firstSess) == 0 {
				atomic.StoreInt64(&firstSess, n)
			}
			atomic.StoreInt64(&lastSess, n)
			if (point == "page.write" || point == "header.write") && atomic.LoadInt64(&noCreate) == 1 {
				atomic.AddInt64(&stmtWrites, 1)
			}
			ms := atomic.LoadInt64(&parkMs)
			if ms == 0 || atomic.LoadInt64(&didPark) != 0 {
				return
			}
			hit := false
			switch point {
			case "wal.write":
				hit = atomic.LoadInt64(&parkEarly) == 0
			case "page.fetch":
				if atomic.AddInt64(&lookups, 1) == atomic.LoadInt64(&parkAt) && atomic.LoadInt64(&parkAt) > 0 && atomic.LoadInt64(&parkEarly) == 1 {
					hit = true
				}
			}
			if hit {
				atomic.StoreInt64(&didPark, 1)
				atomic.StoreInt64(&parked, 1)
				time.Sleep(time.Duration(ms) * time.Millisecond)
				atomic.StoreInt64(&parked, 0)
				atomic.StoreInt64(&lastParkEnd, time.Now().UnixNano())
			}
			return
		}
		// another goroutine: the flusher
		switch point {
		case "flush.begin":
			atomic.StoreInt64(&flusherIn, gid)
		case "flush.end":
			atomic.StoreInt64(&flusherIn, 0)
		case "page.write", "header.write":
			// the timer's writes belong inside its flush (flush.begin .. flush.end mark the
			// exclusive section): a write after it is a write statements can run next to
			if atomic.LoadInt64(&flusherIn) != gid {
				mu.Lock()
				violations = append(violations, fmt.Sprintf("%s on the flusher goroutine outside its flush section (after the exclusive lock was given up), around statement %d", point, atomic.LoadInt64(&stmtIdx)))
				mu.Unlock()
			}
		}
		switch point {
		case "flush.begin", "page.write", "header.write":
			mu.Lock()
			flusherSeqs = append(flusherSeqs, n)
			flusherWhat = append(flusherWhat, point)
			if atomic.LoadInt64(&parked) != 0 {
				violations = append(violations, fmt.Sprintf("%s on the flusher goroutine while statement %d was held open", point, atomic.LoadInt64(&stmtIdx)))
			}
			mu.Unlock()
			if point == "flush.begin" {
				if end := atomic.LoadInt64(&lastParkEnd); end != 0 && time.Now().UnixNano()-end < int64(60*time.Millisecond) {
					atomic.AddInt64(&flushesAfterPark, 1)
					atomic.StoreInt64(&lastParkEnd, 0)
				}
			}
		}
	}
	storage.VerifNoTimer = false
	if c.LogWatch == 2 {
		// the store as a program using the Go API opens it, without the per-statement fsync
		rs, err := storage.OpenRelation(DBName, false)
		if err != nil {
			return "OpenRelation failed: " + err.Error()
		}
		eng.Sess.CurDB, eng.Sess.RelationService = DBName, rs
	} else if err := eng.Exec("USE " + DBName); err != nil {
		return "USE failed: " + err.Error()
	}
	defer eng.Shutdown()
	if c.LogWatch > 0 {
		eng.RS().VerifWrapLog()
	}
	if c.Cache > 0 {
		eng.RS().VerifSetCacheSize(c.Cache)
	}

	m := model.NewDB()
	parkedDML := 0
	stopped := false
	for i, step := range c.Steps {
		if c.Cache > 0 && eng.RS() != nil && len(eng.RS().VerifDirtyOffsets()) > c.Cache/4 {
			// the property's world is one where dirty pages are flushed before they fill the cache:
			// with a cache this small a tick is due before the next statement (CREATE TABLE alone
			// dirties up to seven pages, and a cache that overflows INSIDE it is not reported as an
			// error but leaves a damaged catalog - observed, outside every listed property)
			eng.Flush()
		}
		atomic.StoreInt64(&stmtIdx, int64(i))
		atomic.StoreInt64(&lookups, 0)
		atomic.StoreInt64(&didPark, 0)
		atomic.StoreInt64(&firstSess, 0)
		atomic.StoreInt64(&lastSess, 0)
		atomic.StoreInt64(&stmtWrites, 0)
		logs := step.Stmt != nil && step.Stmt.Kind != "create"
		early := int64(0)
		if !logs || step.ParkEarly {
			early = 1
		}
		atomic.StoreInt64(&parkEarly, early)
		atomic.StoreInt64(&parkAt, int64(step.ParkAt))
		if step.Stmt != nil && step.Stmt.Kind == "create" {
			atomic.StoreInt64(&noCreate, 0)
		} else {
			atomic.StoreInt64(&noCreate, 1)
		}
		atomic.StoreInt64(&parkMs, int64(step.ParkMs))
		var err error
		var closed chan error
		if c.CloseDuringLast && i == len(c.Steps)-1 {
			closed = make(chan error, 1)
			sessObj := eng.Sess
			go func() {
				// (the console's shutdown handler: Session.Close on the signal goroutine)
				for k := 0; k < 400 && atomic.LoadInt64(&parked) == 0 && atomic.LoadInt64(&didPark) == 0; k++ {
					time.Sleep(5 * time.Millisecond)
				}
				closed <- sessObj.Close()
			}()
		}
		if step.Stmt != nil {
			err = eng.ExecStmt(*step.Stmt)
		} else if step.Refused {
			// through the session, as the console would send it
			if e := eng.Exec(step.Select); e == nil {
				st.Label("refused-statement-accepted", 1)
			} else if mk.IsPanic(e) {
				err = e
			}
		} else {
			_, err = eng.Query(step.Select)
		}
		atomic.StoreInt64(&parkMs, 0)
		if closed != nil {
			select {
			case <-closed:
			case <-time.After(20 * time.Second):
				return fmt.Sprintf("step %d: Session.Close called from another goroutine while the statement was held open did not return within 20 s after the statement had ended", i)
			}
			st.Label("session-closed-from-another-goroutine-during-last-statement", 1)
			if err != nil && strings.Contains(err.Error(), "closed") {
				// Close closes the log before it waits for the statement: the statement then fails at its log
				// append ('file already closed') - it was never acknowledged, and what the closing flush makes
				// of its pages is not this property's subject (the flush did wait for the bracket, which is what
				// the monitors check). The contents are not compared in that case.
				st.Label("last-statement-failed-at-the-closed-log", 1)
				err, stopped = nil, true
			}
			// the store is closed now: select the database again for the closing comparison
			eng.Sess.RelationService, eng.Sess.CurDB = nil, ""
			storage.VerifNoTimer = true
			if e := eng.Exec("USE " + DBName); e != nil {
				return "USE after the close failed: " + e.Error()
			}
			if c.Cache > 0 {
				eng.RS().VerifSetCacheSize(c.Cache)
			}
		}
		if err != nil {
			if c.Cache > 0 && !errors.Is(err, storage.ErrLRUCacheFull) && eng.RS() != nil && len(eng.RS().VerifDirtyOffsets()) >= c.Cache-4 {
				// the small cache is (all but) full of dirty pages: the statement's dirty set does not
				// fit, and the implementation reports that through whatever lookup failed first (seen:
				// "value list count does not match column list count" when the catalog could not be
				// read) - outside the property, like the plain 'cache full' error below
				st.Label("stopped-cache-exhausted(other error)", 1)
				stopped = true
				break
			}
			if errors.Is(err, storage.ErrLRUCacheFull) && c.Cache > 0 {
				// the statement's dirty set does not fit the small cache: outside the
				// property (and a failing multi-row statement leaves the model behind) - stop here
				st.Label("stopped-cache-full", 1)
				stopped = true
				break
			}
			return fmt.Sprintf("step %d failed: %v", i, err)
		}
		if step.Stmt != nil && !stopped {
			m.Apply(*step.Stmt)
		}
		// (1) no flusher event between two storage accesses of this statement
		f, l := atomic.LoadInt64(&firstSess), atomic.LoadInt64(&lastSess)
		mu.Lock()
		for k, fs := range flusherSeqs {
			if f != 0 && fs > f && fs < l {
				violations = append(violations, fmt.Sprintf("%s on the flusher goroutine in the middle of statement %d (between two of its storage accesses: the statement bracket was not held)", flusherWhat[k], i))
				break
			}
		}
		flusherSeqs, flusherWhat = nil, nil
		mu.Unlock()
		// (2) a DML or SELECT statement never writes the data file itself
		if w := atomic.LoadInt64(&stmtWrites); w > 0 {
			mu.Lock()
			violations = append(violations, fmt.Sprintf("statement %d wrote %d page(s)/header to the data file on the session goroutine before its log append completed", i, w))
			mu.Unlock()
		}
		if atomic.LoadInt64(&didPark) != 0 && step.Stmt != nil {
			parkedDML++
		}
		if atomic.LoadInt64(&didPark) != 0 {
			kind := "select"
			if step.Stmt != nil {
				kind = step.Stmt.Kind
			}
			st.Label("parked-"+kind, 1)
		}
		if step.IdleMs > 0 {
			time.Sleep(time.Duration(step.IdleMs) * time.Millisecond)
		}
	}
	time.Sleep(30 * time.Millisecond)
	atomic.StoreInt64(&parkMs, 0)
	// contents must still be right (a flush in the wrong place can also lose data)
	if !stopped {
		if c.Cache > 0 {
			// a small cache may be full of pages the last statement dirtied: let a tick
			// clean them first (reading needs evictable pages; running out of them is the
			// documented 'cache full' error, not this property's subject)
			eng.Flush()
		}
		msg := CompareAll(eng, m, nil)
		if c.Cache > 0 && strings.Contains(msg, storage.ErrLRUCacheFull.Error()) {
			st.Label("final-compare-skipped-cache-full", 1)
			msg = ""
		}
		if msg != "" {
			return "after the schedule: " + msg
		}
	}
	mu.Lock()
	v := append([]string{}, violations...)
	mu.Unlock()
	labels := []string{}
	if parkedDML > 0 {
		labels = append(labels, "statement-parked-across-ticks")
	}
	fa := atomic.LoadInt64(&flushesAfterPark)
	if fa > 0 {
		labels = append(labels, "flusher-was-waiting-during-park")
	}
	st.AddExtra("parks_with_flusher_waiting", int(fa))
	if c.LogWatch > 0 {
		labels = append(labels, map[int]string{1: "log-file-writes-watched", 2: "log-file-writes-watched(store opened without fsync, Go API)"}[c.LogWatch])
	}
	st.Record(b, parkedDML > 0 && fa > 0, labels...)
	if len(v) > 0 {
		return v[0]
	}
	if Cfg.OutDir != "" {
		in, out := c13RaceReports(Cfg.OutDir, c13RaceOffsets)
		st.AddExtra("race_reports_out_of_scope", out)
		for _, smp := range c13OutOfScopeSample {
			st.Note("out-of-scope race report: %s", smp)
		}
		c13OutOfScopeSample = nil
		if len(in) > 0 {
			r := in[0]
			if len(r) > 3500 {
				r = r[:3500] + "\n..."
			}
			return fmt.Sprintf("%d data race report(s) between a statement and the flusher:\n%s", len(in), r)
		}
	}
	return ""
}

// c13HeavyLog is a fixed schedule: one session that appends several megabytes to the log (12 statements of
// 1000 rows of 380 bytes each, given as values through the Go API) with the real timer running, then a few
// small statements held open: whatever the code does once a store has logged a lot - checkpoints, log
// rotation - has to respect the statement bracket and the log-before-data order like everything else.
func c13HeavyLog(stmts, rowsPer int) c13Case {
	c := c13Case{LogWatch: 1}
	cr := model.Stmt{Kind: "create", Table: "w", Cols: []model.Col{{Name: "a", Type: model.TInt}, {Name: "s", Type: model.TVarchar, Len: 400}}}
	cr.SQL = gen.RenderStmt(gen.Plain(), cr)
	c.Steps = append(c.Steps, c13Step{Stmt: &cr})
	pad := strings.Repeat("p", 380)
	n := 0
	for i := 0; i < stmts; i++ {
		ins := model.Stmt{Kind: "insert", Table: "w"}
		for k := 0; k < rowsPer; k++ {
			ins.Rows = append(ins.Rows, []model.Val{model.Int(int64(n)), model.Str(pad)})
			n++
		}
		c.Steps = append(c.Steps, c13Step{Stmt: &ins})
	}
	for i := 0; i < 3; i++ {
		ins := model.Stmt{Kind: "insert", Table: "w", Rows: [][]model.Val{{model.Int(int64(n)), model.Str("x")}}}
		n++
		c.Steps = append(c.Steps, c13Step{Stmt: &ins, ParkMs: 130, IdleMs: 20})
	}
	return c
}

func TestC13(t *testing.T) {
	st := vlib.NewStats("C13")
	defer st.Write(Cfg, "C13")
	if Cfg.Replay == "" && Cfg.Shard == 0 {
		hc := c13HeavyLog(12, 1000)
		if msg := c13Run(hc, st); msg != "" {
			// (the case is large: the replay file holds its shape only)
			b, _ := json.Marshal(map[string]interface{}{"heavy_log": true, "stmts": 12, "rows_per_stmt": 1000})
			st.Fail("fixed heavy-log schedule (12 x 1000 rows of 380 bytes, then held statements): "+msg, b)
			vlib.Logf("FAIL C13 (heavy log): %s", msg)
			return
		}
	}
	if Cfg.Replay != "" {
		if raw, err := vlib.LoadReplay(Cfg.Replay); err == nil && bytes.Contains(raw, []byte(`"heavy_log"`)) {
			if msg := c13Run(c13HeavyLog(12, 1000), st); msg != "" {
				st.Fail("fixed heavy-log schedule: "+msg, raw)
			}
			return
		}
	}
	vlib.DriveWith(t, vlib.Prop[c13Case]{ID: "C13", Gen: c13Gen, Run: c13Run, Shrink: 5 * time.Second}, Cfg, st)
}
