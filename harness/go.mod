module verif/harness

go 1.23

toolchain go1.23.5

require (
	github.com/mk6i/mkdb v0.0.0
	pgregory.net/rapid v1.3.0
	verif/vlib v0.0.0
)

require (
	golang.org/x/sys v0.5.0 // indirect
	golang.org/x/term v0.5.0 // indirect
)

replace github.com/mk6i/mkdb => /repo

replace verif/vlib => /verif/vlib
