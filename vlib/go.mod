module verif/vlib

go 1.23

toolchain go1.23.5

require pgregory.net/rapid v1.3.0
