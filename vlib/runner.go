package vlib

import (
	"bytes"
	"encoding/json"
	"flag"
	"fmt"
	"os"
	"path/filepath"
	"runtime"
	"runtime/debug"
	"testing"
	"time"

	"pgregory.net/rapid"
)

// capTB lets rapid.Check run without failing the enclosing *testing.T, so that
// one test can run several searches and turn failures into replay files.
type capTB struct {
	name   string
	failed bool
	log    bytes.Buffer
}

func (c *capTB) Helper()      {}
func (c *capTB) Name() string { return c.name }
func (c *capTB) Logf(format string, args ...any) {
	fmt.Fprintf(&c.log, format+"\n", args...)
}
func (c *capTB) Log(args ...any)                   { fmt.Fprintln(&c.log, args...) }
func (c *capTB) Skipf(format string, args ...any)  { c.Logf(format, args...); runtime.Goexit() }
func (c *capTB) Skip(args ...any)                  { c.Log(args...); runtime.Goexit() }
func (c *capTB) SkipNow()                          { runtime.Goexit() }
func (c *capTB) Errorf(format string, args ...any) { c.failed = true; c.Logf(format, args...) }
func (c *capTB) Error(args ...any)                 { c.failed = true; c.Log(args...) }
func (c *capTB) Fatalf(format string, args ...any) { c.Errorf(format, args...); runtime.Goexit() }
func (c *capTB) Fatal(args ...any)                 { c.Error(args...); runtime.Goexit() }
func (c *capTB) FailNow()                          { c.failed = true; runtime.Goexit() }
func (c *capTB) Fail()                             { c.failed = true }
func (c *capTB) Failed() bool                      { return c.failed }

// RapidCheck runs prop under rapid with the given number of cases and PRNG
// value, never writing rapid fail files. It reports whether rapid saw a
// failure and returns rapid's own log.
func RapidCheck(name string, checks int, seed uint64, shrink time.Duration, prop func(*rapid.T)) (failed bool, log string) {
	flag.Set("rapid.checks", fmt.Sprint(checks))
	flag.Set("rapid.seed", fmt.Sprint(seed))
	flag.Set("rapid.nofailfile", "true")
	flag.Set("rapid.shrinktime", shrink.String())
	tb := &capTB{name: name}
	done := make(chan struct{})
	go func() {
		defer close(done)
		rapid.Check(tb, prop)
	}()
	<-done
	return tb.failed, tb.log.String()
}

// Prop describes one property check: a generator (all randomness), a pure
// runner, and how to decide whether a case is non-trivial.
type Prop[C any] struct {
	ID     string
	Name   string // sub-search name (part of result file name)
	Gen    func(t *rapid.T) C
	Run    func(c C, st *Stats) (msg string) // "" = held
	Shrink time.Duration
	// Amend, when set, is applied to a failing case before it is saved.
	Amend func(c C) C
}

// Drive runs the property in the mode the driver asked for and writes the
// result file. In replay mode it runs exactly the saved case.
func Drive[C any](t *testing.T, p Prop[C]) {
	cfg := GetConfig()
	st := NewStats(p.ID)
	name := p.Name
	if name == "" {
		name = p.ID
	}
	defer st.Write(cfg, name)
	DriveWith(t, p, cfg, st)
}

// DriveWith is Drive with caller-owned statistics (several searches, one result).
func DriveWith[C any](t *testing.T, p Prop[C], cfg Config, st *Stats) {
	runSafe := func(c C) (msg string) {
		defer func() {
			if r := recover(); r != nil {
				msg = fmt.Sprintf("harness-level panic: %v\n%s", r, debug.Stack())
			}
		}()
		return p.Run(c, st)
	}
	if cfg.Replay != "" {
		st.ReplayMode = true
		raw, err := LoadReplay(cfg.Replay)
		if err != nil {
			t.Fatalf("cannot load replay: %v", err)
		}
		var c C
		if err := json.Unmarshal(raw, &c); err != nil {
			t.Fatalf("cannot decode replay case: %v", err)
		}
		if msg := runSafe(c); msg != "" {
			st.Fail(msg, raw)
			Logf("REPLAY-FAIL %s: %s", p.ID, msg)
		} else {
			Logf("REPLAY-PASS %s", p.ID)
		}
		return
	}
	checks := cfg.Checks
	if checks <= 0 {
		checks = 100
	}
	shrink := p.Shrink
	if shrink == 0 {
		shrink = 20 * time.Second
	}
	failed, log := RapidCheck(p.ID, checks, RapidSeed(cfg), shrink, func(rt *rapid.T) {
		c := p.Gen(rt)
		b, err := json.Marshal(c)
		if err != nil {
			panic(err)
		}
		Journal(cfg, b)
		msg := runSafe(c)
		JournalDone(cfg)
		if msg != "" {
			if p.Amend != nil {
				// the check may add what this process did before the case (state that a fresh
				// process replaying the file must rebuild)
				if ab, err := json.Marshal(p.Amend(c)); err == nil {
					b = ab
				}
			}
			st.Fail(msg, b)
			rt.Fatalf("%s", msg)
		}
	})
	if failed && !st.Failed() {
		// rapid itself complained (generator problem, flaky...): infrastructure trouble
		st.Note("rapid reported a failure without a property failure: %s", log)
		Logf("RAPID-TROUBLE %s: %s", p.ID, log)
		if cfg.OutDir != "" {
			os.WriteFile(filepath.Join(cfg.OutDir, "trouble.txt"), []byte(log), 0644)
		}
	}
	if failed && st.Failed() {
		Logf("FAIL %s: %s", p.ID, st.LastFailure())
	}
}
