// Package vlib is the small runtime shared by every check: it reads the run
// configuration from the environment, collects coverage statistics, saves a
// failing case as a replay file, and silences the noisy code under test.
// It must not import mkdb (in-package tests of mkdb import it).
package vlib

import (
	"encoding/json"
	"fmt"
	"hash/fnv"
	"os"
	"path/filepath"
	"runtime/debug"
	"sort"
	"sync"
	"syscall"
)

// Config is what the driver passes to a test process through the environment.
type Config struct {
	Replay  string // VERIF_REPLAY: path of a replay JSON (plain regression mode)
	OutDir  string // VERIF_OUT: where result.json, failure.json, current.json go
	Tier    string // VERIF_TIER: quick | thorough
	Seed    int64  // VERIF_SEED as given to the check
	Shard   int    // VERIF_SHARD
	Shards  int    // VERIF_SHARDS
	Checks  int    // VERIF_CASES: case budget of this shard
	Journal bool   // VERIF_JOURNAL=1: write current.json before each case
}

func GetConfig() Config {
	c := Config{
		Replay: os.Getenv("VERIF_REPLAY"),
		OutDir: os.Getenv("VERIF_OUT"),
		Tier:   os.Getenv("VERIF_TIER"),
	}
	if c.Tier == "" {
		c.Tier = "quick"
	}
	fmt.Sscan(os.Getenv("VERIF_SEED"), &c.Seed)
	fmt.Sscan(os.Getenv("VERIF_SHARD"), &c.Shard)
	fmt.Sscan(os.Getenv("VERIF_SHARDS"), &c.Shards)
	fmt.Sscan(os.Getenv("VERIF_CASES"), &c.Checks)
	if c.Shards == 0 {
		c.Shards = 1
	}
	c.Journal = os.Getenv("VERIF_JOURNAL") == "1"
	return c
}

// Failure describes one violating case.
type Failure struct {
	Property string          `json:"property"`
	Message  string          `json:"message"`
	Case     json.RawMessage `json:"case"`
	Known    string          `json:"known,omitempty"` // id of the listed finding this failure was classified as
}

// Stats accumulates what a run covered.
type Stats struct {
	mu              sync.Mutex
	Property        string            `json:"property"`
	Evaluations     int               `json:"evaluations"`
	Nontrivial      map[string]bool   `json:"nontrivial"` // fingerprints of distinct non-trivial cases
	NontrivialCount int               `json:"nontrivial_count"`
	Labels          map[string]int    `json:"labels"`
	Samples         []json.RawMessage `json:"samples"`
	Excluded        int               `json:"excluded"`
	KnownHits       map[string]int    `json:"known_hits"`
	Extra           map[string]int    `json:"extra"`
	Failures        []Failure         `json:"failures"`
	Notes           []string          `json:"notes"`
	ReplayMode      bool              `json:"replay_mode"`
	maxSamples      int
}

func NewStats(property string) *Stats {
	return &Stats{Property: property, Nontrivial: map[string]bool{}, Labels: map[string]int{},
		KnownHits: map[string]int{}, Extra: map[string]int{}, maxSamples: 4}
}

func Fingerprint(b []byte) string {
	h := fnv.New64a()
	h.Write(b)
	return fmt.Sprintf("%016x", h.Sum64())
}

// Record counts one executed case. caseJSON is the canonical JSON of the case
// (or of whatever identifies it as distinct).
func (s *Stats) Record(caseJSON []byte, nontrivial bool, labels ...string) {
	s.mu.Lock()
	defer s.mu.Unlock()
	s.Evaluations++
	if nontrivial {
		fp := Fingerprint(caseJSON)
		if !s.Nontrivial[fp] {
			s.Nontrivial[fp] = true
			if len(s.Samples) < s.maxSamples && len(caseJSON) < 6000 {
				s.Samples = append(s.Samples, append(json.RawMessage{}, caseJSON...))
			}
		}
	}
	for _, l := range labels {
		s.Labels[l]++
	}
}

// RecordKey is Record for checks that identify a case by a short key rather
// than the full JSON (bounded-exhaustive enumerations).
func (s *Stats) RecordKey(key string, nontrivial bool, sample func() []byte, labels ...string) {
	s.mu.Lock()
	defer s.mu.Unlock()
	s.Evaluations++
	if nontrivial {
		fp := Fingerprint([]byte(key))
		if !s.Nontrivial[fp] {
			s.Nontrivial[fp] = true
			if len(s.Samples) < s.maxSamples && sample != nil {
				s.Samples = append(s.Samples, json.RawMessage(sample()))
			}
		}
	}
	for _, l := range labels {
		s.Labels[l]++
	}
}

func (s *Stats) Label(l string, n int) {
	s.mu.Lock()
	defer s.mu.Unlock()
	s.Labels[l] += n
}

func (s *Stats) AddExtra(k string, n int) {
	s.mu.Lock()
	defer s.mu.Unlock()
	s.Extra[k] += n
}

func (s *Stats) Exclude(n int) {
	s.mu.Lock()
	defer s.mu.Unlock()
	s.Excluded += n
}

func (s *Stats) Known(id string) {
	s.mu.Lock()
	defer s.mu.Unlock()
	s.KnownHits[id]++
}

func (s *Stats) Note(format string, a ...interface{}) {
	s.mu.Lock()
	defer s.mu.Unlock()
	if len(s.Notes) < 50 {
		s.Notes = append(s.Notes, fmt.Sprintf(format, a...))
	}
}

// Fail registers a violation. Only the last registered failure per property
// is kept in full (rapid re-runs the shrunk case last).
func (s *Stats) Fail(msg string, caseJSON []byte) {
	s.mu.Lock()
	defer s.mu.Unlock()
	f := Failure{Property: s.Property, Message: msg, Case: append(json.RawMessage{}, caseJSON...)}
	var keep []Failure
	for _, o := range s.Failures {
		if o.Known != "" {
			keep = append(keep, o)
		}
	}
	s.Failures = append(keep, f)
}

// HitKnown registers a failure that was classified as the listed known finding
// id. During a search it is only counted; when a witness is replayed it is
// reported as a failure carrying the finding id, so that the driver can print
// the KNOWN-FINDING line.
func (s *Stats) HitKnown(id, msg string, caseJSON []byte) {
	s.mu.Lock()
	defer s.mu.Unlock()
	s.KnownHits[id]++
	if s.ReplayMode {
		s.Failures = append(s.Failures, Failure{Property: s.Property, Message: msg, Case: append(json.RawMessage{}, caseJSON...), Known: id})
	}
}

// Failed reports whether a violation that is not a listed finding was registered.
func (s *Stats) Failed() bool {
	s.mu.Lock()
	defer s.mu.Unlock()
	for _, f := range s.Failures {
		if f.Known == "" {
			return true
		}
	}
	return false
}

// LastFailure returns the message of the last unlisted violation.
func (s *Stats) LastFailure() string {
	s.mu.Lock()
	defer s.mu.Unlock()
	for i := len(s.Failures) - 1; i >= 0; i-- {
		if s.Failures[i].Known == "" {
			return s.Failures[i].Message
		}
	}
	return ""
}

// Write stores the statistics as <OutDir>/result-<name>.json.
func (s *Stats) Write(cfg Config, name string) {
	s.mu.Lock()
	defer s.mu.Unlock()
	if cfg.OutDir == "" {
		return
	}
	s.NontrivialCount = len(s.Nontrivial)
	if len(s.Nontrivial) > 300000 {
		// too many fingerprints to ship: the driver then falls back to a
		// conservative count (the largest per-shard count)
		keep := s.Nontrivial
		s.Nontrivial = nil
		defer func() { s.Nontrivial = keep }()
	}
	b, err := json.Marshal(s)
	if err != nil {
		panic(err)
	}
	p := filepath.Join(cfg.OutDir, "result-"+name+".json")
	if err := os.WriteFile(p+".tmp", b, 0644); err != nil {
		panic(err)
	}
	os.Rename(p+".tmp", p)
}

// Journal writes the case about to be executed, so that a process death
// (stack overflow, fatal error, OOM kill) leaves its culprit behind.
func Journal(cfg Config, caseJSON []byte) {
	if cfg.OutDir == "" || !cfg.Journal {
		return
	}
	os.WriteFile(filepath.Join(cfg.OutDir, "current.json"), caseJSON, 0644)
}

func JournalDone(cfg Config) {
	if cfg.OutDir == "" || !cfg.Journal {
		return
	}
	os.Remove(filepath.Join(cfg.OutDir, "current.json"))
}

// LoadReplay reads a replay file: either a bare case or a Failure wrapper.
func LoadReplay(path string) (json.RawMessage, error) {
	b, err := os.ReadFile(path)
	if err != nil {
		return nil, err
	}
	var f Failure
	if err := json.Unmarshal(b, &f); err == nil && len(f.Case) > 0 {
		return f.Case, nil
	}
	return b, nil
}

// RapidSeed derives the PRNG value for rapid from the check seed and shard.
// Never 0 (rapid treats 0 as "pick a random one").
func RapidSeed(cfg Config) uint64 {
	v := uint64(cfg.Seed)*1000003 + uint64(cfg.Shard)*7919 + 1
	v = v % 2147483646
	return v + 1
}

var (
	realOut, realErr *os.File
	silenced         bool
)

// Silence redirects file descriptors 1 and 2 to /dev/null (the storage layer
// and the scanner print on every operation) and returns duplicates of the real
// ones for the harness's own reporting. It never reassigns os.Stdout or
// os.Stderr: dropping the original *os.File lets its finalizer close the fd.
func Silence() (out, err *os.File) {
	if silenced {
		return realOut, realErr
	}
	o, e1 := syscall.Dup(1)
	e, e2 := syscall.Dup(2)
	if e1 != nil || e2 != nil {
		panic("dup failed")
	}
	realOut = os.NewFile(uintptr(o), "real-stdout")
	realErr = os.NewFile(uintptr(e), "real-stderr")
	if dir := os.Getenv("VERIF_OUT"); dir != "" {
		// fatal errors (stack overflow, concurrent map access) and uncaught
		// panics are copied here even though fd 2 is silenced
		if f, err := os.OpenFile(filepath.Join(dir, "crash.log"), os.O_CREATE|os.O_WRONLY|os.O_APPEND, 0644); err == nil {
			debug.SetCrashOutput(f, debug.CrashOptions{})
		}
	}
	if os.Getenv("VERIF_NOISY") == "1" {
		silenced = true
		return realOut, realErr
	}
	dn, er := os.OpenFile(os.DevNull, os.O_WRONLY, 0)
	if er != nil {
		panic(er)
	}
	syscall.Dup2(int(dn.Fd()), 1)
	syscall.Dup2(int(dn.Fd()), 2)
	silenced = true
	return realOut, realErr
}

// Unsilence restores fds 1 and 2 (so that the testing framework's own output
// and crash reports are visible again).
func Unsilence() {
	if !silenced || realOut == nil {
		return
	}
	syscall.Dup2(int(realOut.Fd()), 1)
	syscall.Dup2(int(realErr.Fd()), 2)
}

// Logf prints to the real stderr.
func Logf(format string, a ...interface{}) {
	if realErr != nil {
		fmt.Fprintf(realErr, format+"\n", a...)
	} else {
		fmt.Fprintf(os.Stderr, format+"\n", a...)
	}
}

// SortedKeys helps to iterate maps deterministically.
func SortedKeys(m map[string]int) []string {
	var ks []string
	for k := range m {
		ks = append(ks, k)
	}
	sort.Strings(ks)
	return ks
}
