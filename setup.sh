#!/bin/bash
# Offline setup: regenerate the -modfile go.mod from /repo's, warm the build cache
# by compiling every test binary once. Uses only files on disk.
set -u
cd "$(dirname "$(readlink -f "$0")")"
export GOFLAGS=-mod=mod GOPROXY=off GOSUMDB=off GOTOOLCHAIN=local
python3 - <<'PY'
import sys, os
sys.path.insert(0, "driver")
import check, tempfile, shutil
check.ensure_modfile()
d = tempfile.mkdtemp(prefix="verif-setup-", dir=check.scratch_root())
ok = True
try:
    kinds = sorted({s["kind"] for s in check.PROPS.values()})
    for k in kinds:
        ok = check.build(k, os.path.join(d, k + ".test")) and ok
    if any(s.get("race") for s in check.PROPS.values()):
        ok = check.build("harness", os.path.join(d, "harness-race.test"), race=True) and ok
finally:
    shutil.rmtree(d, ignore_errors=True)
sys.exit(0 if ok else 1)
PY
