module github.com/mk6i/mkdb

go 1.23

toolchain go1.23.5

require golang.org/x/term v0.5.0

require golang.org/x/sys v0.5.0 // indirect

require (
	pgregory.net/rapid v1.3.0
	verif/vlib v0.0.0
)

replace verif/vlib => /verif/vlib
