#!/bin/bash
# usage: tools/seedrun.sh <seeded-dir-name> <ID> [tier]  -- apply /verif/seeded/<name>/patch.diff to /repo, run check, undo
name=$1; id=$2; tier=${3:-quick}
git -C /repo apply /verif/seeded/$name/patch.diff || { echo "cannot apply"; exit 3; }
cd /verif && VERIF_EVIDENCE=/tmp/verif-mut-evidence VERIF_REPLAYS=/tmp/verif-mut-replays ./check $id $tier > /tmp/seedrun-$name-$id.log 2>&1; rc=$?
git -C /repo checkout -- .
grep -a -v "^KNOWN-FINDING" /tmp/seedrun-$name-$id.log | cut -c1-600 | head -${LINES_MAX:-6}
echo "== seeded $name on $id ($tier): exit=$rc"
