// unquote prints the bytes of a Go-quoted string literal (argument 1) to stdout.
package main

import (
	"os"
	"strconv"
)

func main() {
	s, err := strconv.Unquote(os.Args[1])
	if err != nil {
		os.Exit(1)
	}
	os.Stdout.WriteString(s)
}
