#!/bin/bash
# usage: tools/repocommit.sh <message-file>
# Runs the pinned baseline suite in /repo (guard off) and commits all changes only if it passes.
set -euo pipefail
export GOFLAGS=-mod=mod GOPROXY=off GOSUMDB=off GOTOOLCHAIN=local
cd /repo
gofmt -l engine storage cmd sql/parser.go sql/scanner.go | grep . && { echo "gofmt issues"; exit 1; } || true
go build ./... 
go build -tags verif ./...
out=$(go test -vet=off -count=1 ./... 2>&1) || { echo "$out" | grep -E "^(---|FAIL|ok|\s+---)" ; echo "TESTS FAIL - not committing"; exit 1; }
echo "$out" | grep -E "^(ok|FAIL)"
git status --short | grep -v '^??' || true
rm -rf engine/data
git add -A
git commit -q -F "$1"
git log --oneline -1
