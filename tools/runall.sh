#!/bin/bash
# usage: tools/runall.sh [tier] [seed] -- run every registered check once, print one line each
tier=${1:-quick}; seed=${2:-1}
cd /verif
for id in $(python3 -c "import json;print(' '.join(c['property_id'] for c in json.load(open('MANIFEST.json'))['checks']))"); do
  s=$(date +%s.%N)
  out=$(VERIF_SEED=$seed ./check $id $tier 2>/tmp/runall-$id.err); rc=$?
  e=$(date +%s.%N)
  printf "%s rc=%d %.1fs %s\n" $id $rc $(echo "$e - $s" | bc) "$(echo "$out" | grep -v '^KNOWN-FINDING' | tail -1 | cut -c1-160)"
done
