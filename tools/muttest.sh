#!/bin/bash
# usage: tools/muttest.sh <patch> <ID> [tier] -- apply a patch to /repo, run a check, restore
p=$(readlink -f $1); id=$2; tier=${3:-quick}
cd /repo && git apply $p || { echo "cannot apply $p"; exit 3; }
( export GOFLAGS=-mod=mod GOPROXY=off GOSUMDB=off GOTOOLCHAIN=local; go build ./... && go test -vet=off -count=1 ./... 2>&1 | grep -E "^(FAIL|---)" | head -5 ; rm -rf engine/data )
cd /verif && VERIF_REPLAYS=/tmp/verif-mut-replays ./check $id $tier 2>&1 | cut -c1-500 | head -${LINES_MAX:-8}; rc=${PIPESTATUS[0]}
git -C /repo checkout -- . ; echo "== mutant $(basename $p) on $id: exit=$rc"
