#!/usr/bin/env python3
"""Runs every seeded defect under /verif/seeded against its property's check (quick tier, and thorough if quick misses),
records the outcome in seeded/<name>/meta.json and seeded/RESULTS.json. /repo is restored after every run."""
import json, os, subprocess, sys, time
V = "/verif"
names = sorted(d for d in os.listdir(V + "/seeded") if os.path.isdir(V + "/seeded/" + d))
only = sys.argv[1:]
extra = {"C04-2": ["C02"], "C04-r3": ["C02"], "C16-r9": ["C15"], "C04-r10": ["C02"], "C16-r10": ["C15"]}  # a crash inside a flush is a crash between statements: caught by C02's torn-flush segment ends
results = {}
if os.path.exists(V + "/seeded/RESULTS.json"):
    results = json.load(open(V + "/seeded/RESULTS.json"))
for name in names:
    if only and name not in only:
        continue
    pid = name.split("-")[0]
    if name.startswith("C04-2") or name.startswith("C04-r2"):
        pass
    patch = "%s/seeded/%s/patch.diff" % (V, name)
    agent = {}
    ap = "%s/seeded/%s/meta.agent.json" % (V, name)
    if os.path.exists(ap):
        try:
            agent = json.load(open(ap))
        except Exception:
            agent = {}
    runs = []
    caught_by = None
    for check in [pid] + extra.get(name, []):
        for tier in ("quick", "thorough"):
            if subprocess.call(["git", "-C", "/repo", "apply", patch]) != 0:
                runs.append({"check": check, "tier": tier, "result": "patch does not apply"})
                break
            t0 = time.time()
            env = dict(os.environ, VERIF_REPLAYS="/tmp/verif-mut-replays")
            p = subprocess.run(["./check", check, tier], cwd=V, env=env, stdout=subprocess.PIPE, stderr=subprocess.PIPE, text=True)
            subprocess.call(["git", "-C", "/repo", "checkout", "--", "."])
            first = ""
            for l in p.stderr.splitlines():
                if l.startswith("---- "):
                    first = l[:400]
                    break
            runs.append({"check": check, "tier": tier, "exit": p.returncode, "wall_s": round(time.time() - t0, 1), "first_violation": first})
            if p.returncode == 1:
                caught_by = caught_by or "%s %s" % (check, tier)
                break
            if p.returncode != 0:
                break
        if caught_by and check == pid:
            break
    meta = {
        "property": pid,
        "breaks": agent.get("summary", ""),
        "files": agent.get("files", []),
        "needs_to_manifest": agent.get("needs_to_manifest", ""),
        "why_existing_tests_pass": agent.get("why_tests_pass", ""),
        "origin": "independent sub-agent given only the property text and a scratch worktree of /repo (nothing from /verif)",
        "confirmed": "tools/seedverify.sh: in a scratch worktree of /repo HEAD the pinned suite passes with the patch, the demonstration (demo/run.sh) fails with the patch and passes without it",
        "checks_run": runs,
        "caught_by": caught_by,
    }
    note = "%s/seeded/%s/NOTE.txt" % (V, name)
    if os.path.exists(note):
        meta["note"] = open(note).read().strip()
    json.dump(meta, open("%s/seeded/%s/meta.json" % (V, name), "w"), indent=1)
    results[name] = {"caught_by": caught_by, "runs": [(r["check"], r["tier"], r.get("exit")) for r in runs]}
    print(name, "->", caught_by, flush=True)
    json.dump(results, open(V + "/seeded/RESULTS.json", "w"), indent=1, sort_keys=True)
subprocess.call(["rm", "-rf", "/tmp/verif-mut-replays"])
