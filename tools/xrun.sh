#!/bin/bash
# usage: tools/xrun.sh <seeded-name> <ID> [tier]  -- run check <ID> against seeded/<name> in a scratch worktree (not /repo)
name=$1; id=$2; tier=${3:-quick}
wt=/tmp/xr-$name-$id; git -C /repo worktree remove --force $wt 2>/dev/null
git -C /repo worktree add --detach -q $wt HEAD || exit 2
git -C $wt apply /verif/seeded/$name/patch.diff || { echo "cannot apply"; git -C /repo worktree remove --force $wt; exit 3; }
cd /verif && VERIF_REPO=$wt VERIF_EVIDENCE=/dev/shm/xr-$name-$id/ev VERIF_REPLAYS=/dev/shm/xr-$name-$id/rp ./check $id $tier > /dev/shm/xr-$name-$id.log 2>&1; rc=$?
git -C /repo worktree remove --force $wt; rm -rf /dev/shm/xr-$name-$id
grep -a -v "^KNOWN-FINDING" /dev/shm/xr-$name-$id.log | cut -c1-500 | head -${LINES_MAX:-4}; rm -f /dev/shm/xr-$name-$id.log
echo "== seeded $name on $id ($tier): exit=$rc"
