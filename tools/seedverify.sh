#!/bin/bash
# usage: tools/seedverify.sh <ID> [2]   -- confirm a sub-agent's seeded defect in a scratch worktree
# (suite passes with the patch, demo fails with it and passes without), then store it under /verif/seeded/.
set -u
id=$1; n=${2:-}; src=${SEEDSRC:-/tmp/seed}-$id; tag=${SEEDTAG:-}
patch=$src/patch$n.diff; demo=$src/demo$n; meta=$src/meta$n.json
[ -f $patch ] || { echo "no $patch"; exit 2; }
export GOFLAGS=-mod=mod GOPROXY=off GOSUMDB=off GOTOOLCHAIN=local
wt=/tmp/sv-$id$n; rm -rf $wt; git -C /repo worktree prune; git -C /repo worktree add -q --detach $wt HEAD || exit 2
cleanup() { git -C /repo worktree remove --force $wt 2>/dev/null; rm -rf $wt; }
trap cleanup EXIT
cd $wt
git apply --check $patch || { echo "RESULT $id$n: patch does not apply to current HEAD"; exit 1; }
# without patch: demo must pass
( cd $wt && bash $demo/run.sh ) >/tmp/sv-$id$n.nopatch.log 2>&1; rc_clean=$?
git status --short | grep -v '^??' ; git checkout -q -- . ; git clean -fdq
git apply $patch
go build ./... || { echo "RESULT $id$n: does not compile"; exit 1; }
suite=$(go test -vet=off -count=1 ./... 2>&1); rc_suite=$?; rm -rf engine/data
( cd $wt && bash $demo/run.sh ) >/tmp/sv-$id$n.patch.log 2>&1; rc_patch=$?
echo "RESULT $id$n: demo_without_patch_rc=$rc_clean (want 0) suite_with_patch_rc=$rc_suite (want 0) demo_with_patch_rc=$rc_patch (want !=0)"
if [ $rc_clean -eq 0 ] && [ $rc_suite -eq 0 ] && [ $rc_patch -ne 0 ]; then
  dst=/verif/seeded/$id$tag$([ -n "$n" ] && echo "-$n"); rm -rf $dst; mkdir -p $dst
  cp $patch $dst/patch.diff; cp -r $demo $dst/demo; cp $meta $dst/meta.agent.json 2>/dev/null
  echo "CONFIRMED -> $dst"
else
  echo "$suite" | grep -E "^(FAIL|---)" | head; tail -5 /tmp/sv-$id$n.nopatch.log; echo ...; tail -5 /tmp/sv-$id$n.patch.log
  exit 1
fi
