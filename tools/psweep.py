#!/usr/bin/env python3
"""usage: tools/psweep.py [-j N] [-t quick|thorough] [names...]
Parallel variant of seedsweep.py: each seeded defect is applied in its OWN scratch worktree of /repo HEAD
(/tmp/psw-<name>, removed afterwards) and the property's check is run against it with VERIF_REPO, with evidence and
replays redirected to scratch, so /repo and /verif/evidence are not touched and several seeds run at once.
Results go to seeded/<name>/meta.json and seeded/RESULTS.json exactly as seedsweep.py writes them."""
import json, os, subprocess, sys, time, concurrent.futures as cf, threading
V = "/verif"
args = sys.argv[1:]
jobs, tiers = 3, ("quick", "thorough")
while args and args[0].startswith("-"):
    if args[0] == "-j":
        jobs = int(args[1]); args = args[2:]
    elif args[0] == "-t":
        tiers = (args[1],); args = args[2:]
    else:
        sys.exit("bad flag " + args[0])
names = sorted(d for d in os.listdir(V + "/seeded") if os.path.isdir(V + "/seeded/" + d))
if args:
    names = [n for n in names if n in args]
extra = {"C12-r12": ["C04"], "C15-r12": ["C17"], "C17-r11": ["C04"], "C16-r11": ["C15"], "C04-2": ["C02"], "C04-r3": ["C02"], "C16-r9": ["C15"], "C04-r10": ["C02"], "C16-r10": ["C15"]}
lock = threading.Lock()
results = json.load(open(V + "/seeded/RESULTS.json")) if os.path.exists(V + "/seeded/RESULTS.json") else {}

def one(name):
    pid = name.split("-")[0]
    patch = "%s/seeded/%s/patch.diff" % (V, name)
    wt = "/tmp/psw-" + name
    scratch = "/dev/shm/psw-" + name
    subprocess.call(["git", "-C", "/repo", "worktree", "remove", "--force", wt], stderr=subprocess.DEVNULL)
    subprocess.check_call(["git", "-C", "/repo", "worktree", "add", "--detach", "-q", wt, "HEAD"])
    runs, caught_by = [], None
    try:
        if subprocess.call(["git", "-C", wt, "apply", patch]) != 0:
            runs.append({"check": pid, "tier": "-", "result": "patch does not apply"})
        else:
            for check in [pid] + extra.get(name, []):
                for tier in tiers:
                    t0 = time.time()
                    env = dict(os.environ, VERIF_REPO=wt, VERIF_REPLAYS=scratch + "/replays", VERIF_EVIDENCE=scratch + "/evidence")
                    p = subprocess.run(["./check", check, tier], cwd=V, env=env, stdout=subprocess.PIPE, stderr=subprocess.PIPE, text=True)
                    first = ""
                    for l in p.stderr.splitlines():
                        if l.startswith("---- "):
                            first = l[:400]
                            break
                    runs.append({"check": check, "tier": tier, "exit": p.returncode, "wall_s": round(time.time() - t0, 1), "first_violation": first})
                    if p.returncode == 1:
                        caught_by = caught_by or "%s %s" % (check, tier)
                        break
                    if p.returncode != 0:
                        break
                if caught_by and check == pid:
                    break
    finally:
        subprocess.call(["git", "-C", "/repo", "worktree", "remove", "--force", wt])
        subprocess.call(["rm", "-rf", scratch])
    agent = {}
    ap = "%s/seeded/%s/meta.agent.json" % (V, name)
    if os.path.exists(ap):
        try:
            agent = json.load(open(ap))
        except Exception:
            agent = {}
    meta = {
        "property": pid,
        "breaks": agent.get("summary", ""),
        "files": agent.get("files", []),
        "needs_to_manifest": agent.get("needs_to_manifest", ""),
        "why_existing_tests_pass": agent.get("why_tests_pass", ""),
        "origin": "independent sub-agent given only the property text and a scratch worktree of /repo (nothing from /verif)",
        "confirmed": "tools/seedverify.sh: in a scratch worktree of /repo HEAD the pinned suite passes with the patch, the demonstration (demo/run.sh) fails with the patch and passes without it",
        "checks_run": runs,
        "caught_by": caught_by,
    }
    note = "%s/seeded/%s/NOTE.txt" % (V, name)
    if os.path.exists(note):
        meta["note"] = open(note).read().strip()
    with lock:
        json.dump(meta, open("%s/seeded/%s/meta.json" % (V, name), "w"), indent=1)
        results[name] = {"caught_by": caught_by, "runs": [(r["check"], r["tier"], r.get("exit")) for r in runs]}
        json.dump(results, open(V + "/seeded/RESULTS.json", "w"), indent=1, sort_keys=True)
        print(name, "->", caught_by, [(r["check"], r["tier"], r.get("exit"), r.get("wall_s")) for r in runs], flush=True)

with cf.ThreadPoolExecutor(jobs) as ex:
    list(ex.map(one, names))
