#!/bin/bash
# usage: tools/seedN.sh <round> <ID>  -- verify and run the round-N seeds of a property (source /tmp/seed<round>-<ID>)
r=$1; id=$2
for n in "" 2; do
  [ -f /tmp/seed$r-$id/patch$n.diff ] || continue
  SEEDSRC=/tmp/seed$r SEEDTAG=-r$r tools/seedverify.sh $id $n 2>&1 | tail -1
  name=$id-r$r$([ -n "$n" ] && echo "-$n")
  [ -d /verif/seeded/$name ] && LINES_MAX=3 tools/seedrun.sh $name $id
done
