#!/bin/bash
# usage: tools/seed2.sh <ID>  -- verify and run the round-2 seeds of a property
id=$1
for n in "" 2; do
  [ -f /tmp/seed2-$id/patch$n.diff ] || continue
  SEEDSRC=/tmp/seed2 SEEDTAG=-r2 tools/seedverify.sh $id $n 2>&1 | tail -1
  name=$id-r2$([ -n "$n" ] && echo "-$n")
  [ -d /verif/seeded/$name ] && LINES_MAX=3 tools/seedrun.sh $name $id
done
