#!/bin/bash
# usage: tools/revtest.sh <commit> <ID> [tier]  -- reverse-apply a /repo commit, run a check, restore
c=$1; id=$2; tier=${3:-quick}
cd /repo && git show $c | git apply -R || { echo "cannot reverse $c"; exit 3; }
cd /verif && VERIF_REPLAYS=/tmp/verif-mut-replays ./check $id $tier 2>&1 | cut -c1-400 | head -${LINES_MAX:-12}; rc=${PIPESTATUS[0]}
git -C /repo checkout -- . ; echo "== revert of $c on $id: exit=$rc"
