#!/bin/bash
# usage: tools/seedNw.sh <round> <ID>...  -- verify the round-N seeds of the properties (source /tmp/seed<round>-<ID>) and run the
# property's quick check against each in a scratch worktree (tools/psweep.py); /repo is not touched.
r=$1; shift
names=()
for id in "$@"; do
  for n in "" 2; do
    [ -f /tmp/seed$r-$id/patch$n.diff ] || continue
    SEEDSRC=/tmp/seed$r SEEDTAG=-r$r tools/seedverify.sh $id $n 2>&1 | tail -1
    name=$id-r$r$([ -n "$n" ] && echo "-$n")
    [ -d /verif/seeded/$name ] && names+=($name)
  done
done
[ ${#names[@]} -gt 0 ] && python3 tools/psweep.py -j 3 -t quick "${names[@]}"
