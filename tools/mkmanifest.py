#!/usr/bin/env python3
"""Regenerates /verif/MANIFEST.json from driver/props.py (single source of truth)."""
import json, os, sys, subprocess
VERIF = os.path.dirname(os.path.dirname(os.path.abspath(__file__)))
sys.path.insert(0, os.path.join(VERIF, "driver"))
from props import PROPS, NOT_APPLICABLE, HOOK_COMMITS

all_ids = [json.loads(l)["id"] for l in open(os.path.join(VERIF, "properties.jsonl"))]
checks = []
for pid in all_ids:
    if pid not in PROPS:
        continue
    s = PROPS[pid]
    checks.append({
        "property_id": pid,
        "quick_cmd": "./check %s quick" % pid,
        "thorough_cmd": "./check %s thorough" % pid,
        "evidence_file": "/verif/evidence/%s.json" % pid,
        "replay_cmd_template": "./check %s --replay {path}" % pid,
        "engine": s["kind"],
        "level_claimed": {"category": s["level"], "text": s["level_text"], "design_ref": s.get("design_ref", "DESIGN.md section 5, " + pid)},
        "level_note": s["level_note"],
        "technique": s["technique"],
    })
na = [{"property_id": pid, "reason": NOT_APPLICABLE.get(pid, "check not built yet in this session (work in progress; see DESIGN.md section 5 for the plan)")}
      for pid in all_ids if pid not in PROPS]
m = {
    "version": 1,
    "setup_cmd": "./setup.sh",
    "hooks": {
        "guard": "verif",
        "enable": "go build tag: `go test -tags verif` (external harness module /verif/harness with replace => /repo; in-package tests injected with -overlay and -modfile=/verif/modfile/go.mod)",
        "baseline_off_cmd": "cd /repo && GOFLAGS=-mod=mod GOPROXY=off go test -vet=off -count=1 ./...",
        "source_commits": HOOK_COMMITS,
        "add_only": True,
    },
    "engines": [
        {"name": "harness", "path": "/verif/harness", "serves_properties": [p for p in all_ids if p in PROPS and PROPS[p]["kind"] == "harness"],
         "kind_free_text": "external Go test module driving engine/sql/storage through exported API plus verif-tagged hooks; rapid generators, reference model, crash-image composer"},
        {"name": "storage", "path": "/verif/inpkg/storage", "serves_properties": [p for p in all_ids if p in PROPS and PROPS[p]["kind"] == "storage"],
         "kind_free_text": "rapid tests injected into package storage by go test -overlay"},
        {"name": "csvimport", "path": "/verif/inpkg/csvimport", "serves_properties": [p for p in all_ids if p in PROPS and PROPS[p]["kind"] == "csvimport"],
         "kind_free_text": "rapid tests injected into cmd/csvimport (package main) by overlay"},
        {"name": "console", "path": "/verif/inpkg/console", "serves_properties": [p for p in all_ids if p in PROPS and PROPS[p]["kind"] == "console"],
         "kind_free_text": "rapid tests injected into cmd/console (package main) by overlay"},
    ],
    "checks": checks,
    "not_applicable": na,
    "notes": "Every check: ./check <ID> quick|thorough, honours VERIF_SEED; exit 0 held / 1 VIOLATION line / 2 inconclusive (build failure, time budget, unreproducible worker death). Known findings and fixed defects: /verif/known_findings.json.",
}
# (an empty list is kept: every property is claimed, none is set aside - see DESIGN.md section 7)
json.dump(m, open(os.path.join(VERIF, "MANIFEST.json"), "w"), indent=1)
print("MANIFEST.json: %d checks, %d not claimed" % (len(checks), len(na)))
try:
    import jsonschema
    jsonschema.validate(m, json.load(open("/root/.vp/MANIFEST.schema.json")))
    print("schema ok")
except ImportError:
    print("(jsonschema not importable here; validate with python3-vt)")
