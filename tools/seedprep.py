#!/usr/bin/env python3
"""usage: tools/seedprep.py <round> [ids...] -- prepares /tmp/seed<round>-<ID>/ (property.txt, already_done.txt, extra.txt) and a
scratch worktree /tmp/wt<round>-<ID> of /repo HEAD for a seeding sub-agent. Nothing from /verif except the property text is copied."""
import json, os, subprocess, sys, glob
rnd = sys.argv[1]
ids = sys.argv[2:]
props = {}
for l in open("/verif/properties.jsonl"):
    p = json.loads(l)
    props[p["id"]] = p
extra = {
 "C07": "The unchanged code computes AVG as a running mean re-rounded after every row (AVG may be off by rounding for some row orders); your change must introduce a NEW, different violation and your demonstration must pass on the unchanged code.",
 "C13": "Use `go test -race` and/or the hook variable storage.VerifHook (available with `-tags verif`; points: wal.write, wal.sync, page.write, header.write, flush.begin, flush.end, cache.set) if you need to hold a statement open across timer ticks; the race detector works offline here.",
 "C14": "The unchanged code already violates this for multi-row INSERT/UPDATE statements whose k-th row operation (k>=2) is the invalid one (the earlier ones stay applied); your change must introduce a NEW violation outside that case and your demonstration must pass on the unchanged code.",
 "C04": "The unchanged code already loses data when a crash tears a flush that writes freshly allocated pages beyond the old end of file (some pages written, others not); your change must introduce a NEW, different violation and your demonstration must pass on the unchanged code.",
}
for pid in ids or sorted(props):
    p = props[pid]
    out = "/tmp/seed%s-%s" % (rnd, pid)
    os.makedirs(out, exist_ok=True)
    txt = "%s: %s\n\n%s\n" % (pid, p.get("title", ""), p.get("statement", p.get("text", "")))
    txt += "\nQuantified over: %s\n" % p["quantifier"]["text"]
    txt += "\nWhy the existing tests cannot settle it: %s\n" % p["why_tests_cant"]
    txt += "\nAnchored in: %s\n" % ", ".join(p["anchors"]["files"])
    open(out + "/property.txt", "w").write(txt)
    done = []
    for d in sorted(glob.glob("/verif/seeded/%s*" % pid)):
        n = os.path.basename(d)
        if n.split("-")[0] != pid:
            continue
        try:
            m = json.load(open(d + "/meta.json"))
        except Exception:
            continue
        if m.get("breaks"):
            done.append("- " + m["breaks"][:700])
    open(out + "/already_done.txt", "w").write("Seeded defects that ALREADY EXIST for this property (produce something with a DIFFERENT mechanism, in a different function if possible):\n" + "\n".join(done) + "\n")
    if pid in extra:
        open(out + "/extra.txt", "w").write(extra[pid] + "\n")
    wt = "/tmp/wt%s-%s" % (rnd, pid)
    if not os.path.exists(wt):
        subprocess.check_call(["git", "-C", "/repo", "worktree", "add", "--detach", "-q", wt, "HEAD"])
    print(out, wt, len(done), "already done")
